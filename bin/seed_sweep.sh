#!/bin/sh
# run every quick check under a range of VERIF_SEED values; any VIOLATION / HARNESS-ERROR on
# the unchanged tree is a false alarm or a harness bug
cd "$(dirname "$0")/.." || exit 2
for s in ${SEEDS:-1 2 3 4 5 6 7 8}; do
  for p in C14 C16 C09 C10; do
    VERIF_SEED=$s bin/check $p --tier quick --no-evidence 2>&1 | grep -E "^VIOLATION|^DONE|^HARNESS" | cut -c1-300 | sed "s/^/seed=$s /"
  done
done
