#!/usr/bin/env python3
"""Diagnostic: only the enumerated fault points of C09 (all sequences, whole call), on the pool.
usage: bin/faultenum.py [npts]"""
import json
import os
import sys

sys.path.insert(0, os.path.dirname(os.path.dirname(os.path.abspath(__file__))))
os.environ.setdefault("PYTHONHASHSEED", "0")
for k in ("OMP_NUM_THREADS", "OPENBLAS_NUM_THREADS", "MKL_NUM_THREADS", "NUMBA_NUM_THREADS"):
    os.environ[k] = "1"
from cidersim.driver import run_pool  # noqa: E402
from cidersim.engines import history as H  # noqa: E402


class A:
    cases = None


def main():
    npts = int(sys.argv[1]) if len(sys.argv) > 1 else 900
    H.warm(A())
    cases = [c for c in H.plan("thorough", 0, A()) if c.get("hkind") == "faultenum" and c["k0"] <= npts]
    res = run_pool(cases, H.run_case, case_timeout=3600)
    nv = 0
    pts = 0
    for c, r in zip(cases, res):
        if not r or "violations" not in r:
            print("PROBLEM", c, json.dumps(r)[:300])
            continue
        pts += r["stats"].get("fault_points_enumerated", 0)
        for v in r["violations"]:
            nv += 1
            print("VIOLATION", H.FAULTENUM_SEQS[c["seq"]], v["key"], v["detail"][:300])
    print("fault points enumerated:", pts, "violations:", nv)


if __name__ == "__main__":
    main()
