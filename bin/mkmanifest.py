import json
NA = {
 "C01": "pure function of inputs (vxc = dE/dD identity at each input); no schedule, fault, clock or history in the statement; its batching facet is checked under C09 and its thread-schedule facet under C10",
 "C02": "numerical comparison of two pure functions (fast features vs quadrature) over inputs/settings; nothing for a simulator to schedule or fault",
 "C03": "algebraic identity in the scaling factor and the settings; pure function of inputs",
 "C04": "pure identity between an evaluator's energy and derivative outputs; its only stateful facet (chunking / accumulation into shared buffers across calls) is exercised under C09",
 "C05": "bilinear adjoint identity over all inputs; pure. Its thread-count clause follows from C10 (every schedule reproduces the one-thread result) and all forward/backward entry points are in C10's workload",
 "C06": "invariance under rigid motions / relabelling is a pure function of geometry; no nondeterminism involved",
 "C07": "spin-polarised vs unpolarised agreement is a pure input identity",
 "C08": "finiteness/zeros at boundary-value inputs: input-value generation, not faults or schedules",
 "C11": "mapped evaluator equals GP predictive function: pure function comparison",
 "C12": "derivative-vs-value consistency of feature maps/normalisers: pure",
 "C13": "UEG reference vectors equal computed features: pure",
 "C15": "kernel validity and gradients: pure linear-algebra identities over inputs",
 "C17": "analytic forces vs finite differences: pure function of geometry once C10 holds; no fault/schedule dimension",
 "C18": "bookkeeping/rejection are pure; 'C calls stay within buffers' is memory-safety monitoring of single calls (sanitizer territory), a different technique",
 "C19": "combinatorial invariant of a pure grid construction",
 "C20": "pure stride arithmetic over inputs, and FFTW is neither installed nor in the offline wheelhouse so the wrapper cannot run here",
}
PENDING = {}
checks = []
def chk(pid, engine, cat, text, note, tech, ref):
    checks.append({
        "property_id": pid,
        "quick_cmd": "bin/check %s --tier quick" % pid,
        "thorough_cmd": "bin/check %s --tier thorough" % pid,
        "evidence_file": "evidence/%s.json" % pid,
        "replay_cmd_template": "bin/check %s --replay {path}" % pid,
        "engine": engine,
        "level_claimed": {"category": cat, "text": text, "design_ref": ref},
        "level_note": note,
        "technique": tech,
    })
import os, sys
claimed = sys.argv[1:]
if "C14" in claimed:
    chk("C14", "fsim", "fault_enumeration",
        "Every registered feature-map class, the serialisable evaluator and every model composition of the zoo is dumped and reloaded through the package's own entry points on a simulated file system; every raw write index is failed (ENOSPC, sticky), every raw read index is failed (EIO), short reads/writes and open errors are injected, files are re-loaded in a fresh interpreter under another PYTHONHASHSEED, and seeded op histories (overwrite, re-dump of loaded objects, faults, user subclass definitions, objects held across later I/O, dump/load under changed NumPy global state; a quarter of them on a real scratch directory so that memory-mapped loads are exercised) are checked against a path->object reference model; rejection cases are repeated in an interpreter started with -O; every enumerated object is also loaded under relative names (simulated working directory), under the other / a neutral / no extension with the format stated, and with every environment variable the package is seen to read pointing at look-alike files; two-process restarts let a writer process dump and a reader process that has built and used objects of its own load. Two or three client threads of one process save and load their own files concurrently under a seeded scheduler that pre-empts at every operation on the simulated tree (open, raw read/write, close, rename, remove, exists, stat), with write faults belonging to one client while the others run; each client must see what it would see alone. Kernels of one model may share one feature-list object, and the same in-place change is applied to an original and to its reloaded twin. Exhaustive over fault positions for the enumerated objects (incl. every parameter-array layout, float32 parameters and inputs), sampled over histories.",
        "Trusts CPython io.Buffered*/TextIOWrapper, PyYAML, joblib as real components; models are synthetic; no power-loss semantics (the code never syncs and the property does not promise it); HDF5 analyzer files are outside the in-memory layer.",
        "deterministic simulation: in-memory file system under builtins.open with enumerated I/O fault injection, process-restart fault, seeded operation histories against a reference model, seeded interleaving of concurrent client threads at file-system operations",
        "DESIGN.md §3.3")
else: PENDING["C14"]=1
if "C16" in claimed:
    chk("C16", "gphist", "exploration",
        "Seeded training-session histories (store systems in any order/twice, set control points, add reactions in batches and permutations, reset and re-add, fit, refit, likelihood) are run on the real MOLGP/MOLGP2 against a NumPy reference model recomputed from the data files; alpha, labels, residual identity, likelihood and the order/reset invariants are checked after every fit, training calls are interrupted at seeded points (injected MemoryError / KeyboardInterrupt inside add_reactions / store_mol_covs / fit) followed by the documented recovery, a second model is trained in between on other data with the same system ids, the package's own hyper-parameter optimisation with refit is a history step (its optimum observed at the SciPy boundary), and each history is re-run in a fresh interpreter under another PYTHONHASHSEED.",
        "Faults are interrupted calls only (un-acknowledged; the session recovers by reset_reactions + re-add / store again / fit again); damaged data files are not injected (the property promises nothing about them). Tolerances scale with the measured condition numbers.",
        "deterministic simulation: seeded operation histories against an executable reference model, failure injection at seeded points inside calls with recovery, hash-seed/restart perturbation",
        "DESIGN.md §3.4")
else: PENDING["C16"]=1
if "C09" in claimed:
    chk("C09", "histsim", "exploration",
        "Seeded call histories on long-lived calculators, generators, plans and evaluators (batched vs single density matrices, block-size changes incl. grids above the block cap, repeats, spin/molecule/grid/model interleavings, several live objects of one kind, forces between energy calls, aliasing, workspace reuse and buffers overwritten after return, look-alike inputs, allocator-content perturbation) are executed on the real code and compared call by call with the answers of fresh objects; calls are interrupted at seeded points (injected MemoryError / KeyboardInterrupt at the k-th Python line inside the package) and every later call on the same objects is still compared with fresh objects; the shallow fault points of the call that follows a configuration switch are enumerated (set-up phase in quick, whole call in thorough); all objects are dropped and collected between items of data-set loops; the calls of every fourth calculator history are re-made in a fresh interpreter in reverse order (module-level state); caller-owned inputs and option objects are digested before and after each call; optional settings (density threshold, angular cut-off, top exponent) vary per calculator, two differently configured calculators of one model share one grids object, one request is swept over every memory budget, and plans are called on sub-ranges of their samples and compared with the slice of the whole evaluation. Kohn-Sham-object histories also swap the functional (set_mlxc, with or without initializer objects), run the package's ElectronAnalyzer.from_calc on the live object (also interrupted inside its energy evaluation on the temporary grids), and ask all four gradient drivers (restricted/unrestricted, with/without grid response) for their matrices after energy calls of either spin treatment; weave histories revisit one (spin treatment, molecule, grids) coordinate after the others moved; displaced, indefinite density matrices (derivative checks) are swept over every memory budget; analyzer objects are asked for several functionals, grids and quantities in sequence. Feature lists of every registered map class are asked for values, derivatives and chunks on caller-owned arrays with NaN, zero and huge entries; SDMX generators are asked for every matrix of a stack separately as well; dedicated histories put models with nonlocal and SDMX parts on grids above the block cap.",
        "Models are synthetic; molecules <= 3 atoms (plus one-atom 86 800-point grids); allocator perturbation via glibc M_PERTURB; an interrupted call is un-acknowledged (nothing is demanded of it); tolerance 1e-10 relative separates summation-order noise (1e-16) from stale-cache effects (>=1e-9).",
        "deterministic simulation: seeded operation histories with legal-perturbation injection (batching, blocking, aliasing, buffer reuse, allocator content) and failure injection at seeded points inside calls, against a fresh-object reference model",
        "DESIGN.md §3.2")
else: PENDING["C09"]=1
if "C10" in claimed:
    chk("C10", "simgomp", "exploration",
        "The C back end of the working tree is compiled against a simulated OpenMP runtime (ucontext coroutines implementing the GOMP ABI; in the simtrace build every compiler-instrumented memory access is a pre-emption point) and each reachable entry point plus end-to-end integrator calls are run under seeded team sizes (incl. sweeps over every team from 2 to 24, teams smaller than omp_get_max_threads(), thread-count changes between calls, nested teams), scheduling strategies, chunk orders, allocator poison, per-thread floating-point environments, caller-side screening thresholds with near-first / far-first / interleaved point orders, production problem sizes, earlier calls in the same process and repeated passes on one Python-side object under another thread-count setting; thread-count queries of the package's Python code (pyscf.lib.num_threads seen from ciderpress modules) are answered by the simulated runtime; a conflict detector (shadow words per synchronisation epoch) directs dense pre-emption at region functions where two threads touch one word; every output is compared with the one-thread result of the same call.",
        "Sequentially consistent at access granularity; BLAS/libm calls are atomic steps; PySCF's own regions are simulated only where they run CiderPress call-backs (frac_lapl.c, slow SDMX generator: child process with the runtime pre-loaded) and run single-threaded elsewhere; FFTW is a naive-DFT stand-in (the wrapper's own loops are real); MPI paths do not run.",
        "deterministic simulation: simulated OpenMP runtime with a seeded scheduler deciding every interleaving (GOMP-call and memory-access pre-emption), team-size/team-limit/chunk-order/allocator fault injection, race-directed search, one-thread reference oracle",
        "DESIGN.md §3.1")
else: PENDING["C10"]=1
na = [{"property_id": k, "reason": v} for k, v in sorted(NA.items())]
for k in sorted(PENDING):
    na.append({"property_id": k, "reason": "applicable to this technique (DESIGN.md §3) but its check is not registered yet: machinery under construction"})
m = {
 "version": 1,
 "setup_cmd": "cd /verif && /venv/bin/python -m cidersim.build plain sim simtrace",
 "hooks": {"guard": "CIDERPRESS_VERIF", "enable": "no source hooks: the C back end is rebuilt from /repo's working tree into /verif/.build by cidersim/build.py and loaded through the package's own load_library seam (cidersim/boot.py); nothing under /repo is modified",
           "baseline_off_cmd": "cd /repo && /venv/bin/python -m pytest -ra -q -p no:cacheprovider --timeout=900 --continue-on-collection-errors",
           "source_commits": [], "add_only": True},
 "engines": [
  {"name": "fsim", "path": "cidersim/engines/fsim.py", "serves_properties": ["C14"], "kind_free_text": "in-memory file system + fault injection + restart"},
  {"name": "gphist", "path": "cidersim/engines/gphist.py", "serves_properties": ["C16"], "kind_free_text": "training-session histories vs reference model"},
  {"name": "histsim", "path": "cidersim/engines/history.py", "serves_properties": ["C09"], "kind_free_text": "call histories on long-lived objects vs fresh-object model"},
  {"name": "simgomp", "path": "cidersim/engines/omp_sched.py", "serves_properties": ["C10"], "kind_free_text": "simulated OpenMP runtime with seeded scheduler"},
 ],
 "checks": checks,
 "not_applicable": sorted(na, key=lambda e: e["property_id"]),
 "notes": "fix: commits in /repo: 82c6c38 (OmegaMap code, C14), 047054a (sigma/tau clamped in place, C09), d4cf81c (vfeat scaled in place, C09), 84060c1 (stale index in nr_uks_nldf, C09), 416ce1f (batched NLDF potential from last cache, C09), 0de4126 (two-sample model evaluation raised, C09), c18ba20 (racy k loop in atc_reciprocal_convolution, C10), d990871 (reference energies not stored with a correlation kernel first, C16), 1ac148e (KernelEvaluator kept strided views, C14), ca0230b (half-initialised NLDF generator after an interrupted rebuild, C09), 0ad5255 (NULL pointer freed by a destructor after an interrupted constructor, C09), 670cafa (screened multi-contraction shells zeroed neighbouring rows in the SDMX radial loop: schedule-dependent result and heap overflow, C10), efb8e5b (rks_grad.get_vxc_nldf wrong for several density matrices in one call, C09). 2e5951d (ElectronAnalyzer.from_calc left the calculator's generators built for the temporary grids, C09), f81262b (rks_grad.get_vxc_full_response used a stale semilocal plan after an unrestricted call / build(), C09). 61b8413 (ElectronAnalyzer.from_calc without try/finally left the calculator on the temporary grid level after a failed evaluation, C09). f49b8a8 (OmegaMap.fill_feat_ replaced NaN entries in the caller's feature array, C09). All are recorded as fixed in /verif/known_findings.json. No source hooks. See DESIGN.md.",
}
json.dump(m, open("/verif/MANIFEST.json", "w"), indent=1)
