#!/usr/bin/env python3
"""For every `fixed` entry of known_findings.json: check out the parent of the fix commit in a
scratch worktree, run the property's quick check against it (VERIF_REPO) and require that
the recorded violation key is reported again.  Shows that fixed entries suppress nothing."""
import json
import os
import re
import subprocess
import sys

VERIF = os.path.dirname(os.path.dirname(os.path.abspath(__file__)))


def main():
    d = json.load(open(os.path.join(VERIF, "known_findings.json")))
    res = {}
    only = sys.argv[1] if len(sys.argv) > 1 else None
    for e in d["findings"]:
        if e.get("status") != "fixed":
            continue
        if only and only not in e["key"] and only != e["property"]:
            continue
        wt = "/tmp/verif_regress_%s_%d" % (e["commit"], os.getpid())
        subprocess.run(["git", "-C", "/repo", "worktree", "add", "-q", "--detach", wt, e["commit"] + "^"], check=True)
        try:
            env = dict(os.environ, VERIF_REPO=wt, VERIF_MAX_MINIMISE="0")
            p = subprocess.run([os.path.join(VERIF, "bin", "check"), e["property"], "--tier", "quick", "--no-evidence", "--budget", "1200"], capture_output=True, text=True, env=env)
            keys = sorted(set(re.findall(r"key=(\S+)", p.stdout)))
            ok = p.returncode == 1 and e["key"] in keys
            res[e["key"]] = {"commit": e["commit"], "exit": p.returncode, "re_reported": ok, "keys": keys[:10]}
            print(e["property"], e["commit"], "RE-REPORTED" if ok else "NOT RE-REPORTED (exit %d)" % p.returncode, e["key"], flush=True)
            for f in re.findall(r"replay=(\S+)", p.stdout):
                try:
                    os.remove(f)
                except OSError:
                    pass
        finally:
            subprocess.run(["git", "-C", "/repo", "worktree", "remove", "--force", wt])
    json.dump(res, open(os.path.join(VERIF, "mutants", "regress_fixed.json"), "w"), indent=1, sort_keys=True)


if __name__ == "__main__":
    main()
