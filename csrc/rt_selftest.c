#include <stdio.h>
#include <stdint.h>
#include <string.h>
#include <omp.h>
typedef struct { int nthreads, strategy, chunk_shuffle, preempt_mean, window_pct, poison, record_trace, team_limit; uint64_t max_steps, window_fn, flags; } Cfg;
void simgomp_begin(uint64_t, Cfg*); void simgomp_end(void*); int simgomp_error(char*, int);
int main(int argc,char**argv){
  int nt=argc>1?atoi(argv[1]):4; int strat=argc>2?atoi(argv[2]):0;
  int nested=argc>3?atoi(argv[3]):0;
  Cfg c; memset(&c,0,sizeof c); c.nthreads=nt; c.strategy=strat; c.chunk_shuffle=1; c.window_pct=100; c.flags=((uint64_t)nested)<<8;
  simgomp_begin(123,&c);
  double acc[64]; memset(acc,0,sizeof acc); int secs[3]={0,0,0}; long tasks=0; unsigned long long usum=0;
  #pragma omp parallel sections
  {
    #pragma omp section
    secs[0]=1+omp_get_thread_num()*0;
    #pragma omp section
    secs[1]=2;
    #pragma omp section
    secs[2]=3;
  }
  #pragma omp parallel
  {
    #pragma omp single
    {
      for(int i=0;i<10;i++){
        #pragma omp task firstprivate(i) shared(acc)
        acc[i]=i*2.0;
      }
      #pragma omp taskwait
    }
    #pragma omp for schedule(guided,2)
    for(unsigned long long u=0;u<50;u++){
      #pragma omp atomic
      usum+=u;
    }
    #pragma omp for schedule(runtime)
    for(unsigned long long u=0;u<10;u++){
      #pragma omp atomic
      tasks+=1;
    }
    #pragma omp taskgroup
    {
      #pragma omp task
      { 
        #pragma omp atomic
        tasks+=100;
      }
    }
  }
  long tl[37]; memset(tl,0,sizeof tl); long tl2=0;
  #pragma omp parallel
  {
    #pragma omp single
    {
      #pragma omp taskloop grainsize(5)
      for(int i=0;i<37;i++) tl[i]+=i+1;
      #pragma omp taskloop num_tasks(3)
      for(int i=36;i>=0;i-=2) { 
        #pragma omp atomic
        tl2+=i;
      }
    }
  }
  /* a region inside a region: one team of its own per outer thread when nesting is on */
  long nst[128*8]; memset(nst,0,sizeof nst); long inner_sizes=0;
  #pragma omp parallel
  {
    int ot=omp_get_thread_num();
    #pragma omp parallel for schedule(dynamic,1)
    for(int i=0;i<8;i++){ nst[ot*8+i]+=i+1+ot; }
    #pragma omp parallel
    {
      #pragma omp barrier
      #pragma omp atomic
      inner_sizes+=1;
    }
  }
  long nsum=0; for(int o=0;o<nt;o++) for(int i=0;i<8;i++) nsum+=nst[o*8+i];
  long want=0; for(int o=0;o<nt;o++) for(int i=0;i<8;i++) want+=i+1+o;
  if(nsum!=want||inner_sizes!=(long)nt*(nested>1?nested:1)){ printf("nested wrong: %ld vs %ld, inner threads %ld\n",nsum,want,inner_sizes); return 1; }
  long tls=0; for(int i=0;i<37;i++) tls+=tl[i];
  if(tls!=37*38/2||tl2!=342){ printf("taskloop wrong: %ld %ld\n",tls,tl2); return 1; }
  uint64_t st[32]; simgomp_end(st); char buf[256]; int e=simgomp_error(buf,256);
  double s=0; for(int i=0;i<10;i++) s+=acc[i];
  printf("nt=%d secs=%d%d%d accsum=%g usum=%llu tasks=%ld err=%d %s\n",nt,secs[0],secs[1],secs[2],s,usum,tasks,e,buf);
  return !(secs[0]==1&&secs[1]==2&&secs[2]==3&&s==90&&usum==1225&&tasks==10+100*nt&&e==0);
}
