/* force-included into every CiderPress C file of the sim/simtrace builds: the allocator
 * is routed through the simulator (poisoning, canaries).  -Dmalloc=sim_malloc etc. are
 * given on the command line. */
#ifndef VERIF_SIMALLOC_H
#define VERIF_SIMALLOC_H
#include <stddef.h>
void *sim_malloc(size_t n);
void *sim_calloc(size_t a, size_t b);
void *sim_realloc(void *p, size_t n);
void sim_free(void *p);
#endif
