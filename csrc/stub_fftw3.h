/* Minimal functional fftw3.h for the verification builds only.
 * FFTW is not available in the sandbox (and not in the offline wheelhouse).  The few
 * planner calls the FFT wrapper makes (fftw_plan_many_dft / _r2c / _c2r with NULL embeds,
 * one stride for input and output) are served by a naive O(N * sum n_d) separable DFT, so
 * that the wrapper's own OpenMP code (write_fft_input / read_fft_output / run_ffts) can be
 * executed under the simulated runtime.  It exists to make those loops runnable, not to be
 * fast; the transform itself is computed by the calling thread and is the same function
 * of its input whatever the team is.  Header-only (static functions): every plan is made
 * and executed inside cider_fft.c. */
#ifndef VERIF_STUB_FFTW3_H
#define VERIF_STUB_FFTW3_H
#include <complex.h>
#include <math.h>
#include <stddef.h>
#include <stdio.h>
#include <stdlib.h>
#include <string.h>
typedef double _Complex fftw_complex;
typedef struct verif_mini_fftw_plan_s {
    int kind; /* 0 c2c, 1 r2c, 2 c2r */
    int rank;
    int n[8];
    int howmany;
    void *in, *out;
    int stride, idist, odist;
    int sign;
} * fftw_plan;
#define FFTW_FORWARD (-1)
#define FFTW_BACKWARD (+1)
#define FFTW_MEASURE (0U)
#define FFTW_ESTIMATE (1U << 6)
#define FFTW_PATIENT (1U << 5)
#define FFTW_DESTROY_INPUT (1U << 0)
#define FFTW_PRESERVE_INPUT (1U << 4)
#define FFTW_UNALIGNED (1U << 1)
#ifndef VERIF_MINI_FFTW_PI
#define VERIF_MINI_FFTW_PI 3.14159265358979323846264338327950288
#endif
static int fftw_init_threads(void) { return 1; }
static void fftw_plan_with_nthreads(int n) { (void)n; }
static void *fftw_malloc(size_t n) { return malloc(n); }
static void fftw_free(void *p) { free(p); }
static void fftw_destroy_plan(fftw_plan p) { free(p); }
static fftw_plan verif_mini_fftw_mk(int kind, int rank, const int *n, int howmany, void *in,
                                    const int *inembed, int istride, int idist, void *out,
                                    const int *onembed, int ostride, int odist, int sign) {
    if (rank < 1 || rank > 8 || inembed != NULL || onembed != NULL || istride != ostride) {
        fprintf(stderr, "verif mini fftw: unsupported plan (rank %d, embeds, strides)\n", rank);
        abort();
    }
    fftw_plan p = (fftw_plan)calloc(1, sizeof(*p));
    p->kind = kind;
    p->rank = rank;
    for (int i = 0; i < rank; i++)
        p->n[i] = n[i];
    p->howmany = howmany;
    p->in = in;
    p->out = out;
    p->stride = istride;
    p->idist = idist;
    p->odist = odist;
    p->sign = sign;
    return p;
}
static fftw_plan fftw_plan_many_dft(int rank, const int *n, int howmany, fftw_complex *in,
                                    const int *inembed, int istride, int idist,
                                    fftw_complex *out, const int *onembed, int ostride,
                                    int odist, int sign, unsigned flags) {
    (void)flags;
    return verif_mini_fftw_mk(0, rank, n, howmany, in, inembed, istride, idist, out, onembed,
                              ostride, odist, sign);
}
static fftw_plan fftw_plan_many_dft_r2c(int rank, const int *n, int howmany, double *in,
                                        const int *inembed, int istride, int idist,
                                        fftw_complex *out, const int *onembed, int ostride,
                                        int odist, unsigned flags) {
    (void)flags;
    return verif_mini_fftw_mk(1, rank, n, howmany, in, inembed, istride, idist, out, onembed,
                              ostride, odist, FFTW_FORWARD);
}
static fftw_plan fftw_plan_many_dft_c2r(int rank, const int *n, int howmany, fftw_complex *in,
                                        const int *inembed, int istride, int idist, double *out,
                                        const int *onembed, int ostride, int odist,
                                        unsigned flags) {
    (void)flags;
    return verif_mini_fftw_mk(2, rank, n, howmany, in, inembed, istride, idist, out, onembed,
                              ostride, odist, FFTW_BACKWARD);
}
/* in-place separable DFT of a dense row-major complex array with dims n[0..rank-1] */
static void verif_mini_fftw_dense(fftw_complex *x, int rank, const int *n, int sign) {
    size_t tot = 1;
    for (int d = 0; d < rank; d++)
        tot *= (size_t)n[d];
    size_t inner = 1;
    for (int d = rank - 1; d >= 0; d--) {
        int nd = n[d];
        if (nd > 1) {
            fftw_complex *tw = (fftw_complex *)malloc(sizeof(fftw_complex) * (size_t)nd);
            fftw_complex *line = (fftw_complex *)malloc(sizeof(fftw_complex) * (size_t)nd);
            for (int k = 0; k < nd; k++)
                tw[k] = cexp(sign * 2.0 * VERIF_MINI_FFTW_PI * I * (double)k / (double)nd);
            size_t outer = tot / (inner * (size_t)nd);
            for (size_t o = 0; o < outer; o++)
                for (size_t i = 0; i < inner; i++) {
                    fftw_complex *base = x + o * inner * (size_t)nd + i;
                    for (int k = 0; k < nd; k++) {
                        fftw_complex acc = 0;
                        for (int j = 0; j < nd; j++)
                            acc += base[(size_t)j * inner] * tw[((long)j * k) % nd];
                        line[k] = acc;
                    }
                    for (int k = 0; k < nd; k++)
                        base[(size_t)k * inner] = line[k];
                }
            free(tw);
            free(line);
        }
        inner *= (size_t)nd;
    }
}
static void fftw_execute(const fftw_plan p) {
    int rank = p->rank;
    const int *n = p->n;
    size_t tot = 1, head = 1;
    for (int d = 0; d < rank; d++)
        tot *= (size_t)n[d];
    for (int d = 0; d < rank - 1; d++)
        head *= (size_t)n[d];
    int nl = n[rank - 1];
    int nh = nl / 2 + 1;
    /* physical length of the real last dimension: padded when the transform is in place */
    int inplace = (p->in == p->out);
    int nreal = inplace ? 2 * nh : nl;
    /* all inputs are gathered before any output is written: with interleaved (batch-last)
     * in-place layouts the output of one transform overlaps the input of another */
    fftw_complex *wall = (fftw_complex *)malloc(sizeof(fftw_complex) * tot * (size_t)p->howmany);
    for (int pass = 0; pass < 2; pass++)
    for (int t = 0; t < p->howmany; t++) {
        fftw_complex *w = wall + (size_t)t * tot;
        if (p->kind == 0) {
            fftw_complex *in = (fftw_complex *)p->in + (size_t)t * (size_t)p->idist;
            fftw_complex *out = (fftw_complex *)p->out + (size_t)t * (size_t)p->odist;
            if (pass == 0) {
                for (size_t i = 0; i < tot; i++)
                    w[i] = in[i * (size_t)p->stride];
                verif_mini_fftw_dense(w, rank, n, p->sign);
            } else {
                for (size_t i = 0; i < tot; i++)
                    out[i * (size_t)p->stride] = w[i];
            }
        } else if (p->kind == 1) {
            double *in = (double *)p->in + (size_t)t * (size_t)p->idist;
            fftw_complex *out = (fftw_complex *)p->out + (size_t)t * (size_t)p->odist;
            if (pass == 0) {
                for (size_t h = 0; h < head; h++)
                    for (int j = 0; j < nl; j++)
                        w[h * (size_t)nl + (size_t)j] =
                            in[(h * (size_t)nreal + (size_t)j) * (size_t)p->stride];
                verif_mini_fftw_dense(w, rank, n, FFTW_FORWARD);
            } else {
                for (size_t h = 0; h < head; h++)
                    for (int j = 0; j < nh; j++)
                        out[(h * (size_t)nh + (size_t)j) * (size_t)p->stride] =
                            w[h * (size_t)nl + (size_t)j];
            }
        } else {
            fftw_complex *in = (fftw_complex *)p->in + (size_t)t * (size_t)p->idist;
            double *out = (double *)p->out + (size_t)t * (size_t)p->odist;
            /* rebuild the full spectrum from its Hermitian half: X[-k] = conj(X[k]) */
            for (size_t h = 0; pass == 0 && h < head; h++) {
                /* index of -h in the leading dimensions */
                size_t rem = h, hneg = 0, mul = 1;
                for (int d = rank - 2; d >= 0; d--) {
                    size_t id = rem % (size_t)n[d];
                    rem /= (size_t)n[d];
                    size_t idn = (id == 0) ? 0 : (size_t)n[d] - id;
                    hneg += idn * mul;
                    mul *= (size_t)n[d];
                }
                for (int j = 0; j < nl; j++) {
                    if (j < nh)
                        w[h * (size_t)nl + (size_t)j] =
                            in[(h * (size_t)nh + (size_t)j) * (size_t)p->stride];
                    else
                        w[h * (size_t)nl + (size_t)j] =
                            conj(in[(hneg * (size_t)nh + (size_t)(nl - j)) * (size_t)p->stride]);
                }
            }
            if (pass == 0)
                verif_mini_fftw_dense(w, rank, n, FFTW_BACKWARD);
            for (size_t h = 0; pass == 1 && h < head; h++)
                for (int j = 0; j < nl; j++)
                    out[(h * (size_t)nreal + (size_t)j) * (size_t)p->stride] =
                        creal(w[h * (size_t)nl + (size_t)j]);
        }
    }
    free(wall);
}
#endif
