/* Stub fftw3.h for the verification build only.
 * FFTW is not available in the sandbox (and not in the offline wheelhouse), so this
 * header only lets pbc_tools.c / cider_fft.c compile and libmcider link.  Every
 * function aborts loudly if it is ever called: no claimed check runs an FFT path. */
#ifndef VERIF_STUB_FFTW3_H
#define VERIF_STUB_FFTW3_H
#include <complex.h>
#include <stddef.h>
#include <stdio.h>
#include <stdlib.h>
typedef double _Complex fftw_complex;
typedef struct verif_stub_fftw_plan_s *fftw_plan;
#define FFTW_FORWARD (-1)
#define FFTW_BACKWARD (+1)
#define FFTW_MEASURE (0U)
#define FFTW_ESTIMATE (1U << 6)
#define FFTW_PATIENT (1U << 5)
#define FFTW_DESTROY_INPUT (1U << 0)
#define FFTW_PRESERVE_INPUT (1U << 4)
#define FFTW_UNALIGNED (1U << 1)
#define VERIF_FFTW_DIE(name)                                                   \
    do {                                                                       \
        fprintf(stderr, "verif stub fftw: %s called (FFTW unavailable)\n",     \
                name);                                                         \
        abort();                                                               \
    } while (0)
static inline int fftw_init_threads(void) { return 1; }
static inline void fftw_plan_with_nthreads(int n) { (void)n; }
static inline void *fftw_malloc(size_t n) { return malloc(n); }
static inline fftw_complex *fftw_alloc_complex(size_t n) {
    return (fftw_complex *)malloc(n * sizeof(fftw_complex));
}
static inline void fftw_free(void *p) { free(p); }
static inline void fftw_destroy_plan(fftw_plan p) { (void)p; }
static inline void fftw_execute(const fftw_plan p) {
    (void)p;
    VERIF_FFTW_DIE("fftw_execute");
}
static inline fftw_plan fftw_plan_many_dft(int rank, const int *n, int howmany,
                                           fftw_complex *in, const int *inembed,
                                           int istride, int idist,
                                           fftw_complex *out, const int *onembed,
                                           int ostride, int odist, int sign,
                                           unsigned flags) {
    VERIF_FFTW_DIE("fftw_plan_many_dft");
    return NULL;
}
static inline fftw_plan fftw_plan_many_dft_r2c(int rank, const int *n,
                                               int howmany, double *in,
                                               const int *inembed, int istride,
                                               int idist, fftw_complex *out,
                                               const int *onembed, int ostride,
                                               int odist, unsigned flags) {
    VERIF_FFTW_DIE("fftw_plan_many_dft_r2c");
    return NULL;
}
static inline fftw_plan fftw_plan_many_dft_c2r(int rank, const int *n,
                                               int howmany, fftw_complex *in,
                                               const int *inembed, int istride,
                                               int idist, double *out,
                                               const int *onembed, int ostride,
                                               int odist, unsigned flags) {
    VERIF_FFTW_DIE("fftw_plan_many_dft_c2r");
    return NULL;
}
#endif
