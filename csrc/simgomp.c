/* simgomp — a deterministic, single-OS-thread simulation of the GNU OpenMP runtime.
 *
 * Implements the GOMP ABI that GCC emits for CiderPress' C back end (plus neighbouring
 * entry points a realistic edit could start using).  The threads of a team are ucontext
 * coroutines inside the calling OS thread: exactly one simulated thread runs at a time
 * and this file alone decides which.  Scheduling points ("steps") are
 *   - every GOMP call that can block or hand out work (sim and simtrace builds), and
 *   - every compiler-instrumented memory access (__tsan_* entry points; simtrace build).
 * Every decision comes from one SplitMix64 stream seeded by simgomp_begin(), or from a
 * recorded schedule trace in replay mode.  Nothing reads a clock or an address.
 */
#define _GNU_SOURCE
#include <dlfcn.h>
#include <stdint.h>
#include <stdio.h>
#include <stdlib.h>
#include <string.h>
#include <sys/mman.h>
#include <ucontext.h>
#include <unistd.h>

#define MAX_TEAM 128
#define STACK_BYTES (8u << 20)
#define MAX_WS 64
#define MAX_REGIONS 512

enum { ST_RUNNABLE = 0, ST_BARRIER = 1, ST_CRIT = 2, ST_DONE = 3 };
enum {
    STRAT_RANDOM = 0,
    STRAT_RTC_PERM = 1, /* run to completion in a random permutation */
    STRAT_ROUND_ROBIN = 2,
    STRAT_STARVE_ONE = 3,
    STRAT_GREEDY_ONE = 4,
    STRAT_REVERSE = 5,
    STRAT_RTC_ID = 6, /* run to completion in id order (closest to a 1-core machine) */
    NSTRAT = 7
};
enum {
    ERR_NONE = 0,
    ERR_DEADLOCK = 1,
    ERR_STEP_CAP = 2,
    ERR_CANARY = 3,
    ERR_REPLAY_DIVERGED = 4,
    ERR_UNSUPPORTED = 5,
    ERR_POISONED = 6
};

typedef struct {
    int nthreads;       /* team size (omp_get_max_threads) */
    int strategy;       /* STRAT_* */
    int chunk_shuffle;  /* grant dynamic chunks in arbitrary order */
    int preempt_mean;   /* mean #instrumented accesses between pre-emptions; 0 = never */
    int window_pct;     /* % of parallel regions in which access pre-emption is active */
    int poison;         /* 0 none, else byte pattern for malloc'd memory */
    int record_trace;   /* record schedule trace */
    int team_limit;     /* if > 0: regions get at most this many threads although omp_get_max_threads()
                           reports nthreads (OMP_THREAD_LIMIT / OMP_DYNAMIC: legal for any runtime) */
    uint64_t max_steps; /* cap on scheduling steps per begin/end */
    uint64_t window_fn; /* if non-zero: access pre-emption only in the region function at this library offset */
    uint64_t flags;     /* bit 0: conflict detector on (trace build) */
} SimCfg;

typedef struct {
    uint64_t regions;
    uint64_t regions_multi; /* regions run with a team > 1 */
    uint64_t steps;         /* scheduling points passed (GOMP calls + instrumented accesses in windows) */
    uint64_t accesses;      /* instrumented accesses inside parallel regions */
    uint64_t switches;      /* context switches to a different thread */
    uint64_t preemptions;   /* switches forced at a memory access */
    uint64_t barriers;
    uint64_t chunks;
    uint64_t chunk_shuffles; /* chunk grants that were out of order */
    uint64_t criticals;
    uint64_t crit_waits;
    uint64_t singles;
    uint64_t mallocs;
    uint64_t poisoned_bytes;
    uint64_t trace_hash;
    uint64_t nested;
    uint64_t starved_regions;
    uint64_t atomics;
} SimStats;

typedef struct {
    int kind; /* 1 loop, 2 single, 3 sections */
    uint64_t seq;
    long next, end, incr, chunk;
    long nchunks, granted;
    long *perm; /* chunk order when shuffled */
    int users_done;
    int single_taken;
    int guided;
} WorkShare;

typedef struct SimThread {
    ucontext_t ctx;
    void *stack;
    int tid;
    int state;
    uint64_t ws_seq;     /* worksharing constructs encountered */
    WorkShare *cur_ws;   /* current loop */
    int barrier_gen;
    struct Team *team;
    struct Team *team_top; /* innermost team this coroutine is executing in */
    int locks_held;
} SimThread;

typedef struct Team {
    int n;
    SimThread *th; /* NULL for nested (inline) teams */
    void (*fn)(void *);
    void *data;
    int barrier_waiting;
    int barrier_gen;
    int ndone;
    WorkShare ws[MAX_WS];
    int crit_owner; /* -1 free */
    int window;     /* access pre-emption active in this region */
    int perm[MAX_TEAM];
    int special;    /* starved / greedy thread */
    int rr_next;
    int explicit_sched; /* replay: this region has recorded segments */
    struct Team *parent;
    int inline_tid; /* for nested teams */
    uint64_t inline_ws_seq;
    WorkShare *inline_cur_ws;
} Team;

/* ------------------------------------------------------------------------------ */
static SimCfg g_cfg = {1, STRAT_RTC_ID, 0, 0, 0, 0, 0, 0, 0, 0, 0};
static SimStats g_st;
static uint64_t g_rng = 0x1234567;
static int g_err = 0;
static char g_errmsg[256];
static Team *g_team = NULL;     /* innermost team */
static SimThread *g_cur = NULL; /* running coroutine (NULL = scheduler / serial code) */
static ucontext_t g_sched_ctx;
static long g_countdown = 0;
static int g_in_window = 0;
static uint32_t g_epoch = 1; /* synchronisation epoch of the conflict detector */
static uint64_t g_nested_multi = 0; /* nested regions run with a team > 1 in this begin/end */
static unsigned int g_pool_mxcsr = 0x1F80;
static unsigned short g_pool_cwd = 0x037F;
static int g_active = 0; /* between begin/end */
static uint64_t g_window_salt = 0;
#define MAX_INNER 8
static void *g_stacks[MAX_TEAM + MAX_INNER];
static int g_nest_depth = 0;
static int g_nstacks = 0;

/* schedule trace: segments (tid, nsteps) */
typedef struct {
    int32_t tid;
    int32_t nsteps;
} Seg;
static Seg *g_trace = NULL;
static uint64_t g_ntrace = 0, g_captrace = 0;
static int32_t *g_ctrace = NULL; /* chunk decisions */
static uint64_t g_nctrace = 0, g_capctrace = 0;
static int g_trace_overflow = 0;
#define TRACE_CAP (4u << 20)
/* replay */
static const Seg *g_rp = NULL;
static uint64_t g_nrp = 0, g_irp = 0;
static int32_t g_rp_left = 0;
static const int32_t *g_rpc = NULL;
static uint64_t g_nrpc = 0, g_irpc = 0;
static int g_replaying = 0;
static uint64_t g_replay_diverged = 0;
static int32_t g_seg_steps = 0; /* steps taken by current thread in current segment */
static int g_seg_vol = 0;       /* segment ended by a voluntary yield AT its last step */

/* per-region table (function pointer -> counts) */
typedef struct {
    void *fn;
    uint64_t off;
    uint64_t runs, runs_multi, max_team;
} RegionRec;
static RegionRec g_regions[MAX_REGIONS];
static int g_nregions = 0;

static inline uint64_t rnd(void) {
    uint64_t z = (g_rng += 0x9E3779B97F4A7C15ULL);
    z = (z ^ (z >> 30)) * 0xBF58476D1CE4E5B9ULL;
    z = (z ^ (z >> 27)) * 0x94D049BB133111EBULL;
    return z ^ (z >> 31);
}
static inline uint64_t rnd_below(uint64_t n) { return n ? rnd() % n : 0; }
static inline void th_hash(uint64_t v) {
    g_st.trace_hash = (g_st.trace_hash ^ v) * 0x100000001B3ULL;
}

static void set_err(int code, const char *msg) {
    if (!g_err) {
        g_err = code;
        snprintf(g_errmsg, sizeof g_errmsg, "%s", msg);
    }
}

/* ------------------------------------------------------------------------------ */
/* stacks */
static void *get_stack(int i) {
    if (i < g_nstacks && g_stacks[i])
        return g_stacks[i];
    void *p = mmap(NULL, STACK_BYTES + 4096, PROT_READ | PROT_WRITE,
                   MAP_PRIVATE | MAP_ANONYMOUS | MAP_NORESERVE, -1, 0);
    if (p == MAP_FAILED) {
        perror("simgomp: mmap stack");
        abort();
    }
    mprotect(p, 4096, PROT_NONE); /* guard page at the low end */
    g_stacks[i] = p;
    if (i >= g_nstacks)
        g_nstacks = i + 1;
    return p;
}

/* ------------------------------------------------------------------------------ */
/* trace recording */
static void trace_push(int tid, int32_t nsteps) {
    th_hash(((uint64_t)(uint32_t)tid << 32) | (uint32_t)nsteps);
    if (!g_cfg.record_trace)
        return;
    if (g_ntrace >= TRACE_CAP) {
        g_trace_overflow = 1;
        return;
    }
    if (g_ntrace == g_captrace) {
        g_captrace = g_captrace ? 2 * g_captrace : 4096;
        g_trace = (Seg *)realloc(g_trace, g_captrace * sizeof(Seg));
    }
    g_trace[g_ntrace].tid = tid;
    g_trace[g_ntrace].nsteps = nsteps;
    g_ntrace++;
}
static void ctrace_push(int32_t v) {
    th_hash(0xC0000000ULL ^ (uint64_t)(uint32_t)v);
    if (!g_cfg.record_trace)
        return;
    if (g_nctrace >= TRACE_CAP) {
        g_trace_overflow = 1;
        return;
    }
    if (g_nctrace == g_capctrace) {
        g_capctrace = g_capctrace ? 2 * g_capctrace : 4096;
        g_ctrace = (int32_t *)realloc(g_ctrace, g_capctrace * sizeof(int32_t));
    }
    g_ctrace[g_nctrace++] = v;
}

/* ------------------------------------------------------------------------------ */
/* scheduler */
static long next_interval(void) {
    if (g_cfg.preempt_mean <= 0)
        return 0x7fffffffffffL;
    return 1 + (long)rnd_below(2 * (uint64_t)g_cfg.preempt_mean);
}

static int pick_next(Team *t, int prev) {
    int runnable[MAX_TEAM], nr = 0;
    for (int i = 0; i < t->n; i++)
        if (t->th[i].state == ST_RUNNABLE)
            runnable[nr++] = i;
    if (nr == 0)
        return -1;
    if (g_replaying) {
        while (t->explicit_sched && g_irp < g_nrp && g_rp[g_irp].tid >= 0) {
            int tid = g_rp[g_irp].tid;
            g_rp_left = g_rp[g_irp].nsteps;
            g_irp++;
            if (tid < t->n && t->th[tid].state == ST_RUNNABLE)
                return tid;
            g_replay_diverged++;
        }
        /* nothing (more) recorded for this region: lowest runnable thread, to completion */
        g_rp_left = 0x7fffffff;
        return runnable[0];
    }
    switch (g_cfg.strategy) {
    case STRAT_RANDOM:
        return runnable[rnd_below(nr)];
    case STRAT_RTC_PERM:
    case STRAT_RTC_ID:
    case STRAT_REVERSE:
        /* keep running prev if still runnable, else first runnable in perm order */
        if (prev >= 0 && t->th[prev].state == ST_RUNNABLE && !g_in_window)
            return prev;
        if (prev >= 0 && t->th[prev].state == ST_RUNNABLE && g_in_window && nr > 1) {
            /* pre-empted at an access: move to a different thread */
            int k = (int)rnd_below(nr - 1);
            for (int i = 0; i < nr; i++)
                if (runnable[i] != prev && k-- == 0)
                    return runnable[i];
        }
        for (int i = 0; i < t->n; i++)
            if (t->th[t->perm[i]].state == ST_RUNNABLE)
                return t->perm[i];
        return runnable[0];
    case STRAT_ROUND_ROBIN:
        for (int k = 0; k < t->n; k++) {
            int c = (t->rr_next + k) % t->n;
            if (t->th[c].state == ST_RUNNABLE) {
                t->rr_next = (c + 1) % t->n;
                return c;
            }
        }
        return runnable[0];
    case STRAT_STARVE_ONE: {
        int others[MAX_TEAM], no = 0;
        for (int i = 0; i < nr; i++)
            if (runnable[i] != t->special)
                others[no++] = runnable[i];
        if (no == 0)
            return t->special;
        return others[rnd_below(no)];
    }
    case STRAT_GREEDY_ONE:
        if (t->th[t->special].state == ST_RUNNABLE)
            return t->special;
        return runnable[rnd_below(nr)];
    }
    return runnable[0];
}

static void release_barrier(Team *t) {
    for (int i = 0; i < t->n; i++)
        if (t->th[i].state == ST_BARRIER)
            t->th[i].state = ST_RUNNABLE;
    t->barrier_waiting = 0;
    t->barrier_gen++;
    g_epoch++;
}

/* called on the scheduler context */
static void run_team(Team *t) {
    int prev = -1;
    for (;;) {
        if (g_err)
            return;
        if (t->ndone == t->n)
            return;
        int nxt = pick_next(t, prev);
        if (nxt < 0) {
            /* nobody runnable: threads wait at a barrier / for the critical section while
             * the rest have left the region */
            char m[200];
            snprintf(m, sizeof m,
                     "deadlock: %d of %d threads blocked (barrier_waiting=%d) and %d finished",
                     t->n - t->ndone, t->n, t->barrier_waiting, t->ndone);
            set_err(ERR_DEADLOCK, m);
            return;
        }
        if (nxt != prev) {
            g_st.switches++;
        }
        prev = nxt;
        g_cur = &t->th[nxt];
        g_team = g_cur->team_top;
        g_seg_steps = 0;
        g_seg_vol = 0;
        if (g_in_window)
            g_countdown = next_interval();
        swapcontext(&g_sched_ctx, &g_cur->ctx);
        /* back on the scheduler.  A segment that ended because the thread finished or
         * blocked did NOT yield at its last step: record one step more so that replay,
         * which yields when the count is exhausted, never yields there spuriously. */
        if (!g_replaying)
            trace_push(nxt, g_seg_steps + (g_seg_vol ? 0 : 1));
        g_cur = NULL;
        if (g_st.steps > g_cfg.max_steps && g_cfg.max_steps) {
            set_err(ERR_STEP_CAP, "step cap exceeded");
            return;
        }
    }
}

/* a scheduling point reached by the running coroutine; returns after being rescheduled */
static inline void yield_to_sched(void) {
    SimThread *me = g_cur;
    swapcontext(&me->ctx, &g_sched_ctx);
}

/* a step at which the scheduler MAY switch */
static inline void step_point(int at_access) {
    if (!g_cur)
        return;
    g_st.steps++;
    g_seg_steps++;
    if (g_replaying) {
        if (--g_rp_left > 0)
            return;
        if (at_access)
            g_st.preemptions++;
        g_seg_vol = 1;
        yield_to_sched();
        return;
    }
    if (at_access) {
        g_st.preemptions++;
        g_seg_vol = 1;
        yield_to_sched();
        return;
    }
    /* GOMP call: run-to-completion strategies do not switch here unless blocked */
    switch (g_cfg.strategy) {
    case STRAT_RTC_PERM:
    case STRAT_RTC_ID:
    case STRAT_REVERSE:
        return;
    default:
        g_seg_vol = 1;
        yield_to_sched();
    }
}

static void tramp(unsigned hi, unsigned lo) {
    SimThread *me = (SimThread *)(((uintptr_t)hi << 32) | (uintptr_t)lo);
    Team *t = me->team;
    t->fn(t->data);
    me->state = ST_DONE;
    t->ndone++;
    /* a finished thread releases a barrier nobody else can complete?  No: in OpenMP every
     * thread of the team must reach every barrier; a barrier left waiting is a deadlock,
     * detected by the scheduler. */
    swapcontext(&me->ctx, &g_sched_ctx);
    abort(); /* never resumed */
}

/* returns an address-independent id of the outlined function (offset in its library) */
/* ------------------------------------------------------------------------------ */
/* Conflict detector (search guidance, never a verdict).  Shadow state per 4-byte word: last
 * writer and reader set within the current synchronisation epoch (epochs advance at region
 * start/end and at every barrier release; accesses inside critical sections / under locks
 * and atomic accesses are not tracked).  Two accesses of different threads to one word in
 * one epoch, at least one a write, mark the running region function as "conflicting"; the
 * engine then re-runs the case with dense access pre-emption confined to that function and
 * only a differing result is a violation. */
typedef struct {
    uint64_t key;   /* word address >> 1 (8-byte granule) */
    uint32_t epoch;
    int16_t w[2];   /* last writer per 4-byte half, -1 none */
    uint64_t r[2];  /* reader set per half (tid & 63) */
} Shadow;
#define SH_BITS 21
#define SH_SIZE (1u << SH_BITS)
#define SH_PROBES 12
static Shadow *g_shadow = NULL;
static uint64_t g_cur_fn_off = 0;
static uint64_t g_sh_overflow = 0;
#define MAX_CONF 64
static struct {
    uint64_t fn_off;
    uint64_t count;
    uint64_t ww, rw;
} g_conf[MAX_CONF];
static int g_nconf = 0;
static inline int detect_on(void) { return (g_cfg.flags & 1u) != 0; }
static int g_dbg_conf = 0;
static void note_conflict(int ww) {
    if (g_dbg_conf > 0) {
        g_dbg_conf--;
        fprintf(stderr, "CONFLICT fn_off=%lx ww=%d tid=%d epoch=%u\n", (unsigned long)g_cur_fn_off, ww, g_cur ? g_cur->tid : -1, g_epoch);
    }
    for (int i = 0; i < g_nconf; i++)
        if (g_conf[i].fn_off == g_cur_fn_off) {
            g_conf[i].count++;
            if (ww)
                g_conf[i].ww++;
            else
                g_conf[i].rw++;
            return;
        }
    if (g_nconf < MAX_CONF) {
        g_conf[g_nconf].fn_off = g_cur_fn_off;
        g_conf[g_nconf].count = 1;
        g_conf[g_nconf].ww = ww ? 1 : 0;
        g_conf[g_nconf].rw = ww ? 0 : 1;
        g_nconf++;
    }
}
static inline Shadow *sh_find(uint64_t key, int create) {
    uint64_t h = (key * 0x9E3779B97F4A7C15ULL) >> (64 - SH_BITS);
    Shadow *freeslot = NULL;
    for (int p = 0; p < SH_PROBES; p++) {
        Shadow *e = &g_shadow[(h + (uint64_t)p) & (SH_SIZE - 1)];
        if (e->epoch == g_epoch) {
            if (e->key == key)
                return e;
        } else if (!freeslot) {
            freeslot = e;
        }
    }
    if (!create)
        return NULL;
    if (!freeslot) {
        g_sh_overflow++;
        return NULL;
    }
    freeslot->key = key;
    freeslot->epoch = g_epoch;
    freeslot->w[0] = freeslot->w[1] = -1;
    freeslot->r[0] = freeslot->r[1] = 0;
    return freeslot;
}
static void shadow_access(const void *addr, unsigned long size, int is_write) {
    if (!g_cur || !g_team || !g_team->th || g_team->n < 2)
        return;
    if (g_team->crit_owner == g_cur->tid || g_cur->locks_held > 0)
        return;
    if (!g_shadow) {
        g_shadow = (Shadow *)calloc(SH_SIZE, sizeof(Shadow));
        if (!g_shadow)
            return;
    }
    uintptr_t a = (uintptr_t)addr;
    uintptr_t w0 = a >> 2, w1 = (a + (size ? size : 1) - 1) >> 2;
    if (w1 - w0 > 4096)
        w1 = w0 + 4096;
    int tid = g_cur->tid;
    uint64_t bit = 1ULL << (tid & 63);
    for (uintptr_t w = w0; w <= w1; w++) {
        Shadow *e = sh_find((uint64_t)(w >> 1), 1);
        if (!e)
            return;
        int hf = (int)(w & 1);
        if (g_dbg_conf > 0 && ((is_write && ((e->w[hf] >= 0 && e->w[hf] != tid) || (e->r[hf] & ~bit))) || (!is_write && e->w[hf] >= 0 && e->w[hf] != tid)))
            fprintf(stderr, "  addr=%p size=%lu write=%d prev_writer=%d readers=%lx me=%d\n", (void *)(w << 2), size, is_write, e->w[hf], (unsigned long)e->r[hf], tid);
        if (is_write) {
            if (e->w[hf] >= 0 && e->w[hf] != tid)
                note_conflict(1);
            else if (e->r[hf] & ~bit)
                note_conflict(0);
            e->w[hf] = (int16_t)tid;
        } else {
            if (e->w[hf] >= 0 && e->w[hf] != tid)
                note_conflict(0);
            e->r[hf] |= bit;
        }
    }
}
static void shadow_forget(const void *addr, size_t size) {
    if (!g_shadow || !g_cur)
        return;
    uintptr_t a = (uintptr_t)addr;
    uintptr_t k0 = a >> 3, k1 = (a + (size ? size : 1) - 1) >> 3;
    if (k1 - k0 > (1u << 22))
        return;
    for (uintptr_t k = k0; k <= k1; k++) {
        Shadow *e = sh_find((uint64_t)k, 0);
        if (e)
            e->epoch = 0;
    }
}
void simgomp_debug_conflicts(int n) { g_dbg_conf = n; }
int simgomp_nconflicts(void) { return g_nconf; }
void simgomp_conflict(int i, uint64_t *fn_off, uint64_t *count, uint64_t *ww, uint64_t *rw) {
    *fn_off = g_conf[i].fn_off;
    *count = g_conf[i].count;
    *ww = g_conf[i].ww;
    *rw = g_conf[i].rw;
}
uint64_t simgomp_shadow_overflow(void) { return g_sh_overflow; }
uint64_t simgomp_nested_multi(void);

static uint64_t record_region(void (*fn)(void *), int n) {
    for (int i = 0; i < g_nregions; i++)
        if (g_regions[i].fn == (void *)fn) {
            g_regions[i].runs++;
            if (n > 1)
                g_regions[i].runs_multi++;
            if ((uint64_t)n > g_regions[i].max_team)
                g_regions[i].max_team = n;
            return g_regions[i].off;
        }
    uint64_t off = 0;
    Dl_info di;
    if (dladdr((void *)fn, &di) && di.dli_fbase)
        off = (uint64_t)((char *)fn - (char *)di.dli_fbase);
    if (g_nregions < MAX_REGIONS) {
        g_regions[g_nregions].fn = (void *)fn;
        g_regions[g_nregions].off = off;
        g_regions[g_nregions].runs = 1;
        g_regions[g_nregions].runs_multi = n > 1;
        g_regions[g_nregions].max_team = n;
        g_nregions++;
    }
    return off;
}

static void team_init_common(Team *t, int n, void (*fn)(void *), void *data) {
    memset(t, 0, sizeof(Team) - 0); /* ws[] zeroed */
    t->n = n;
    t->fn = fn;
    t->data = data;
    t->crit_owner = -1;
}

static void free_ws(Team *t) {
    for (int i = 0; i < MAX_WS; i++)
        if (t->ws[i].perm) {
            free(t->ws[i].perm);
            t->ws[i].perm = NULL;
        }
}

static void parallel_impl(void (*fn)(void *), void *data, unsigned num_threads,
                          WorkShare *preset) {
    g_st.regions++;
    int inner_n = (int)((g_cfg.flags >> 8) & 0xff);
    if (g_cur != NULL && g_team != NULL && g_team->th != NULL && !g_err && inner_n > 1 &&
        g_nest_depth == 0 && !g_replaying) {
        /* nested parallelism switched on by the environment (OMP_MAX_ACTIVE_LEVELS >= 2,
         * OMP_NUM_THREADS=a,b): the inner region gets a real team.  The encountering outer
         * thread runs the inner team's scheduler on its own stack; the other outer threads do
         * not advance meanwhile (one legal serialisation of the outer level), the inner
         * threads interleave under the same strategy and access pre-emption. */
        if (inner_n > MAX_INNER)
            inner_n = MAX_INNER;
        if (num_threads && (int)num_threads < inner_n)
            inner_n = (int)num_threads;
        Team *t2 = (Team *)calloc(1, sizeof(Team));
        SimThread *th2 = (SimThread *)calloc((size_t)inner_n, sizeof(SimThread));
        team_init_common(t2, inner_n, fn, data);
        t2->th = th2;
        t2->parent = g_team;
        if (preset) {
            t2->ws[0] = *preset;
            t2->ws[0].seq = 1;
        }
        for (int i = 0; i < inner_n; i++)
            t2->perm[i] = i;
        t2->special = (int)rnd_below((uint64_t)inner_n);
        t2->rr_next = (int)rnd_below((uint64_t)inner_n);
        t2->window = g_in_window;
        for (int i = 0; i < inner_n; i++) {
            SimThread *th = &th2[i];
            th->tid = i;
            th->state = ST_RUNNABLE;
            th->ws_seq = preset ? 1 : 0;
            th->cur_ws = preset ? &t2->ws[0] : NULL;
            th->team = t2;
            th->team_top = t2;
            th->locks_held = 0;
            th->stack = get_stack(MAX_TEAM + i);
            getcontext(&th->ctx);
            th->ctx.uc_stack.ss_sp = (char *)th->stack + 4096;
            th->ctx.uc_stack.ss_size = STACK_BYTES;
            th->ctx.uc_link = NULL;
            uintptr_t p = (uintptr_t)th;
            makecontext(&th->ctx, (void (*)(void))tramp, 2, (unsigned)(p >> 32),
                        (unsigned)(p & 0xffffffffu));
        }
        g_st.nested++;
        g_st.regions_multi++;
        g_nested_multi++;
        Team *save_team = g_team;
        SimThread *save_cur = g_cur;
        ucontext_t save_sched = g_sched_ctx;
        int save_win = g_in_window;
        long save_cd = g_countdown;
        g_nest_depth++;
        g_team = t2;
        g_epoch++;
        run_team(t2);
        g_epoch++;
        g_nest_depth--;
        g_sched_ctx = save_sched;
        g_team = save_team;
        g_cur = save_cur;
        g_in_window = save_win;
        g_countdown = save_cd;
        free_ws(t2);
        free(th2);
        free(t2);
        return;
    }
    if (g_cur != NULL || g_team != NULL || g_err) {
        /* nested region (or poisoned simulator): team of one, inline */
        Team nt;
        team_init_common(&nt, 1, fn, data);
        nt.parent = g_team;
        nt.th = NULL;
        if (preset) {
            nt.ws[0] = *preset;
            nt.ws[0].seq = 1;
            nt.inline_ws_seq = 1;
            nt.inline_cur_ws = &nt.ws[0];
        }
        g_st.nested++;
        Team *save = g_team;
        SimThread *me = g_cur;
        g_team = &nt;
        if (me)
            me->team_top = &nt;
        fn(data);
        g_team = save;
        if (me)
            me->team_top = save;
        free_ws(&nt);
        return;
    }
    int n = num_threads ? (int)num_threads : g_cfg.nthreads;
    if (g_cfg.team_limit > 0 && n > g_cfg.team_limit)
        n = g_cfg.team_limit;
    if (n < 1)
        n = 1;
    if (n > MAX_TEAM)
        n = MAX_TEAM;
    uint64_t fn_off = record_region(fn, n);
    th_hash(0xAB00000000ULL | (uint64_t)n);
    if (n > 1)
        g_st.regions_multi++;
    static Team team; /* one top-level team at a time */
    static SimThread threads[MAX_TEAM];
    Team *t = &team;
    team_init_common(t, n, fn, data);
    t->th = threads;
    if (preset) {
        t->ws[0] = *preset;
        t->ws[0].seq = 1;
    }
    /* per-region scheduling parameters */
    if (!g_replaying) {
        for (int i = 0; i < n; i++)
            t->perm[i] = i;
        if (g_cfg.strategy == STRAT_RTC_PERM)
            for (int i = n - 1; i > 0; i--) {
                int j = (int)rnd_below(i + 1);
                int tmp = t->perm[i];
                t->perm[i] = t->perm[j];
                t->perm[j] = tmp;
            }
        if (g_cfg.strategy == STRAT_REVERSE)
            for (int i = 0; i < n; i++)
                t->perm[i] = n - 1 - i;
        t->special = (int)rnd_below(n);
        t->rr_next = (int)rnd_below(n);
        /* access pre-emption windows are keyed by the region *function*: in one run a
         * random window_pct % of the outlined functions are pre-empted in every one of
         * their executions, the others never (offsets, not addresses: ASLR-independent) */
        {
            uint64_t z = (fn_off + 0x9E3779B97F4A7C15ULL) ^ g_window_salt;
            z = (z ^ (z >> 30)) * 0xBF58476D1CE4E5B9ULL;
            z = (z ^ (z >> 27)) * 0x94D049BB133111EBULL;
            z ^= z >> 31;
            t->window = (g_cfg.preempt_mean > 0) && ((int)(z % 100) < g_cfg.window_pct);
            if (g_cfg.window_fn)
                t->window = (g_cfg.preempt_mean > 0) && (fn_off == g_cfg.window_fn);
        }
        if (g_cfg.strategy == STRAT_STARVE_ONE)
            g_st.starved_regions++;
        /* region marker: (-1 - window, ordinal << 8 | team size) */
        trace_push(-1 - t->window, (int32_t)((g_st.regions << 8) | (uint64_t)n));
    } else {
        for (int i = 0; i < n; i++)
            t->perm[i] = i;
        t->window = 0;
        t->explicit_sched = 0;
        /* leftovers of the previous region (it ended earlier than recorded) */
        while (g_irp < g_nrp && g_rp[g_irp].tid >= 0) {
            g_irp++;
            g_replay_diverged++;
        }
        /* markers of regions that did not happen / were skipped in a sparse trace */
        while (g_irp < g_nrp && g_rp[g_irp].tid < 0 &&
               (uint64_t)(g_rp[g_irp].nsteps >> 8) < g_st.regions)
            g_irp++;
        if (g_irp < g_nrp && g_rp[g_irp].tid < 0 &&
            (uint64_t)(g_rp[g_irp].nsteps >> 8) == g_st.regions) {
            t->window = (g_rp[g_irp].tid == -2);
            if ((g_rp[g_irp].nsteps & 0xff) != n)
                g_replay_diverged++;
            t->explicit_sched = 1;
            g_irp++;
        }
        /* else: the trace says nothing about this region: default order, no windows */
    }
    for (int i = 0; i < n; i++) {
        SimThread *th = &threads[i];
        th->tid = i;
        th->state = ST_RUNNABLE;
        th->ws_seq = preset ? 1 : 0;
        th->cur_ws = preset ? &t->ws[0] : NULL;
        th->team = t;
        th->team_top = t;
        th->locks_held = 0;
        th->stack = get_stack(i);
        getcontext(&th->ctx);
        th->ctx.uc_stack.ss_sp = (char *)th->stack + 4096;
        th->ctx.uc_stack.ss_size = STACK_BYTES;
        th->ctx.uc_link = NULL;
        uintptr_t p = (uintptr_t)th;
        makecontext(&th->ctx, (void (*)(void))tramp, 2, (unsigned)(p >> 32),
                    (unsigned)(p & 0xffffffffu));
#if defined(__x86_64__)
        /* the floating-point environment is per thread: the master (thread 0) runs with the
         * caller's, the workers with the one they inherited when the pool was created (the
         * first region of the process, see simgomp_reset_fpenv) - a caller that sets
         * flush-to-zero or a rounding mode just before a region does not set it for the team */
        if (i > 0 && th->ctx.uc_mcontext.fpregs) {
            th->ctx.uc_mcontext.fpregs->mxcsr = g_pool_mxcsr;
            th->ctx.uc_mcontext.fpregs->cwd = g_pool_cwd;
        }
#endif
    }
    g_team = t;
    g_in_window = t->window;
    g_cur_fn_off = fn_off;
    g_epoch++;
    run_team(t);
    g_epoch++;
    g_in_window = 0;
    g_team = NULL;
    g_cur = NULL;
    free_ws(t);
}

/* floating-point environment of the worker pool (x86-64): default IEEE unless the harness
 * says otherwise */
void simgomp_reset_fpenv(void) {
#if defined(__x86_64__)
    unsigned int m = 0x1F80;
    unsigned short c = 0x037F;
    __asm__ volatile("ldmxcsr %0" : : "m"(m));
    __asm__ volatile("fldcw %0" : : "m"(c));
    g_pool_mxcsr = m;
    g_pool_cwd = c;
#endif
}

/* ------------------------------------------------------------------------------ */
/* identity */
static inline int cur_tid(void) {
    if (g_cur)
        return g_team && g_team->th ? g_cur->tid : 0;
    return 0;
}
int omp_get_thread_num(void) {
    if (!g_team)
        return 0;
    if (!g_team->th)
        return 0; /* nested inline team */
    return g_cur ? g_cur->tid : 0;
}
int omp_get_num_threads(void) {
    if (!g_team)
        return 1;
    return g_team->n;
}
int omp_get_max_threads(void) { return g_cfg.nthreads > 0 ? g_cfg.nthreads : 1; }
int omp_get_num_procs(void) { return g_cfg.nthreads > 0 ? g_cfg.nthreads : 1; }
void omp_set_num_threads(int n) {
    /* honoured like libgomp would: affects subsequent regions */
    if (n > 0 && n <= MAX_TEAM)
        g_cfg.nthreads = n;
}
int omp_in_parallel(void) { return g_team != NULL && g_team->n > 1; }
int omp_get_dynamic(void) { return 0; }
void omp_set_dynamic(int v) { (void)v; }
int omp_get_nested(void) { return 0; }
void omp_set_nested(int v) { (void)v; }
int omp_get_level(void) {
    int l = 0;
    for (Team *t = g_team; t; t = t->parent)
        l++;
    return l;
}
int omp_get_thread_limit(void) { return g_cfg.team_limit > 0 ? g_cfg.team_limit : MAX_TEAM; }
double omp_get_wtime(void) {
    /* simulated clock: advances with scheduling steps only */
    return 1e-6 * (double)(g_st.steps + g_st.regions);
}
double omp_get_wtick(void) { return 1e-6; }

/* ------------------------------------------------------------------------------ */
/* parallel */
void GOMP_parallel(void (*fn)(void *), void *data, unsigned num_threads, unsigned flags) {
    (void)flags;
    parallel_impl(fn, data, num_threads, NULL);
}

/* barrier */
void GOMP_barrier(void) {
    Team *t = g_team;
    if (!t || !t->th || t->n == 1 || !g_cur)
        return;
    g_st.barriers++;
    g_st.steps++;
    g_seg_steps++;
    SimThread *me = g_cur;
    t->barrier_waiting++;
    if (t->barrier_waiting == t->n - 0 && t->ndone == 0) {
        release_barrier(t);
        me->state = ST_RUNNABLE;
        /* last arriver: scheduling point */
        if (g_replaying) {
            if (--g_rp_left <= 0) {
                g_seg_vol = 1;
                yield_to_sched();
            }
        } else if (!(g_cfg.strategy == STRAT_RTC_PERM || g_cfg.strategy == STRAT_RTC_ID ||
                     g_cfg.strategy == STRAT_REVERSE)) {
            g_seg_vol = 1;
            yield_to_sched();
        }
        return;
    }
    if (t->barrier_waiting + t->ndone == t->n && t->ndone > 0) {
        /* everyone still alive is here but some threads already left: real deadlock */
        me->state = ST_BARRIER;
        if (g_replaying)
            g_rp_left = 0;
        yield_to_sched();
        return;
    }
    me->state = ST_BARRIER;
    if (g_replaying)
        g_rp_left = 0;
    yield_to_sched();
}
int GOMP_barrier_cancel(void) {
    GOMP_barrier();
    return 0;
}

/* critical / atomic */
static void crit_enter(void) {
    Team *t = g_team;
    if (!t || !t->th || !g_cur)
        return;
    g_st.criticals++;
    step_point(0);
    while (t->crit_owner != -1 && t->crit_owner != g_cur->tid) {
        g_st.crit_waits++;
        g_cur->state = ST_CRIT;
        if (g_replaying)
            g_rp_left = 0;
        yield_to_sched();
    }
    t->crit_owner = g_cur->tid;
}
static void crit_leave(void) {
    Team *t = g_team;
    if (!t || !t->th || !g_cur)
        return;
    t->crit_owner = -1;
    for (int i = 0; i < t->n; i++)
        if (t->th[i].state == ST_CRIT)
            t->th[i].state = ST_RUNNABLE;
    step_point(0);
}
void GOMP_critical_start(void) { crit_enter(); }
void GOMP_critical_end(void) { crit_leave(); }
void GOMP_critical_name_start(void **p) {
    (void)p;
    crit_enter(); /* one lock for all names: stricter serialisation is still a legal schedule */
}
void GOMP_critical_name_end(void **p) {
    (void)p;
    crit_leave();
}
void GOMP_atomic_start(void) {
    g_st.atomics++;
    crit_enter();
}
void GOMP_atomic_end(void) { crit_leave(); }

/* ------------------------------------------------------------------------------ */
/* worksharing descriptors: keyed by per-thread construct sequence number */
static WorkShare *ws_enter(int kind, int *first) {
    Team *t = g_team;
    uint64_t seq;
    if (t->th && g_cur) {
        seq = ++g_cur->ws_seq;
    } else {
        seq = ++t->inline_ws_seq;
    }
    WorkShare *free_slot = NULL;
    for (int i = 0; i < MAX_WS; i++) {
        if (t->ws[i].kind && t->ws[i].seq == seq) {
            *first = 0;
            return &t->ws[i];
        }
        if (!t->ws[i].kind && !free_slot)
            free_slot = &t->ws[i];
    }
    if (!free_slot) {
        set_err(ERR_UNSUPPORTED, "too many concurrent worksharing constructs");
        free_slot = &t->ws[0];
    }
    memset(free_slot, 0, sizeof *free_slot);
    free_slot->kind = kind;
    free_slot->seq = seq;
    *first = 1;
    return free_slot;
}
static void ws_leave(WorkShare *w) {
    Team *t = g_team;
    w->users_done++;
    if (w->users_done >= t->n) {
        if (w->perm)
            free(w->perm);
        memset(w, 0, sizeof *w);
    }
}

static void loop_init(WorkShare *w, long start, long end, long incr, long chunk, int guided) {
    w->next = start;
    w->end = end;
    w->incr = incr;
    w->chunk = chunk > 0 ? chunk : 1;
    w->guided = guided;
    long niter;
    if (incr > 0)
        niter = end > start ? (end - start + incr - 1) / incr : 0;
    else
        niter = start > end ? (start - end - incr - 1) / (-incr) : 0;
    w->nchunks = (niter + w->chunk - 1) / w->chunk;
    w->granted = 0;
    w->perm = NULL;
    int shuffle = g_replaying ? (g_nrpc > 0) : g_cfg.chunk_shuffle;
    if (shuffle && w->nchunks > 1 && g_team->n > 1 && !guided) {
        w->perm = (long *)malloc(sizeof(long) * w->nchunks);
        for (long i = 0; i < w->nchunks; i++)
            w->perm[i] = i;
        for (long i = w->nchunks - 1; i > 0; i--) {
            long j;
            if (g_replaying) {
                j = (g_irpc < g_nrpc) ? g_rpc[g_irpc++] : i;
                if (j > i || j < 0)
                    j = i;
            } else {
                j = (long)rnd_below(i + 1);
                ctrace_push((int32_t)j);
            }
            long tmp = w->perm[i];
            w->perm[i] = w->perm[j];
            w->perm[j] = tmp;
        }
    }
}

static int loop_next(WorkShare *w, long *istart, long *iend) {
    if (!w)
        return 0;
    if (w->granted >= w->nchunks)
        return 0;
    long k = w->granted++;
    long c = w->perm ? w->perm[k] : k;
    if (c != k)
        g_st.chunk_shuffles++;
    g_st.chunks++;
    th_hash(0xC4000000ULL ^ ((uint64_t)cur_tid() << 40) ^ (uint64_t)c);
    long s = w->next + c * w->chunk * w->incr;
    long e = s + w->chunk * w->incr;
    if (w->incr > 0) {
        if (e > w->end)
            e = w->end;
    } else {
        if (e < w->end)
            e = w->end;
    }
    *istart = s;
    *iend = e;
    return 1;
}

static inline WorkShare **cur_ws_slot(void) {
    if (g_team->th && g_cur)
        return &g_cur->cur_ws;
    return &g_team->inline_cur_ws;
}

static int loop_start_common(long start, long end, long incr, long chunk, long *istart,
                             long *iend, int guided) {
    if (!g_team) {
        /* orphaned worksharing outside any region: a team of one gets the whole range */
        *istart = start;
        *iend = end;
        return incr > 0 ? start < end : start > end;
    }
    step_point(0);
    int first;
    WorkShare *w = ws_enter(1, &first);
    if (first)
        loop_init(w, start, end, incr, chunk, guided);
    *cur_ws_slot() = w;
    return loop_next(w, istart, iend);
}

int GOMP_loop_nonmonotonic_dynamic_start(long s, long e, long i, long c, long *is, long *ie) {
    return loop_start_common(s, e, i, c, is, ie, 0);
}
int GOMP_loop_dynamic_start(long s, long e, long i, long c, long *is, long *ie) {
    return loop_start_common(s, e, i, c, is, ie, 0);
}
int GOMP_loop_guided_start(long s, long e, long i, long c, long *is, long *ie) {
    return loop_start_common(s, e, i, c, is, ie, 1);
}
int GOMP_loop_nonmonotonic_guided_start(long s, long e, long i, long c, long *is, long *ie) {
    return loop_start_common(s, e, i, c, is, ie, 1);
}
int GOMP_loop_runtime_start(long s, long e, long i, long *is, long *ie) {
    return loop_start_common(s, e, i, 1, is, ie, 0);
}
int GOMP_loop_nonmonotonic_runtime_start(long s, long e, long i, long *is, long *ie) {
    return loop_start_common(s, e, i, 1, is, ie, 0);
}
int GOMP_loop_maybe_nonmonotonic_runtime_start(long s, long e, long i, long *is, long *ie) {
    return loop_start_common(s, e, i, 1, is, ie, 0);
}
int GOMP_loop_static_start(long s, long e, long i, long c, long *is, long *ie) {
    /* static schedule handed out by the runtime: thread t gets chunks t, t+n, ... ; we
     * model it with the dynamic descriptor restricted to in-order grants per thread */
    (void)c;
    Team *t = g_team;
    int n = t ? t->n : 1;
    int tid = omp_get_thread_num();
    long niter = i > 0 ? (e > s ? (e - s + i - 1) / i : 0) : (s > e ? (s - e - i - 1) / (-i) : 0);
    long q = niter / n, r = niter % n;
    long lo = tid * q + (tid < r ? tid : r);
    long cnt = q + (tid < r ? 1 : 0);
    *cur_ws_slot() = NULL;
    if (g_team) {
        int first;
        WorkShare *w = ws_enter(1, &first);
        w->nchunks = 0;
        *cur_ws_slot() = w;
    }
    if (cnt <= 0)
        return 0;
    *is = s + lo * i;
    *ie = s + (lo + cnt) * i;
    return 1;
}
int GOMP_loop_static_next(long *is, long *ie) {
    (void)is;
    (void)ie;
    return 0;
}

static int loop_next_common(long *is, long *ie) {
    if (!g_team)
        return 0;
    step_point(0);
    return loop_next(*cur_ws_slot(), is, ie);
}
int GOMP_loop_nonmonotonic_dynamic_next(long *is, long *ie) { return loop_next_common(is, ie); }
int GOMP_loop_dynamic_next(long *is, long *ie) { return loop_next_common(is, ie); }
int GOMP_loop_guided_next(long *is, long *ie) { return loop_next_common(is, ie); }
int GOMP_loop_nonmonotonic_guided_next(long *is, long *ie) { return loop_next_common(is, ie); }
int GOMP_loop_runtime_next(long *is, long *ie) { return loop_next_common(is, ie); }
int GOMP_loop_nonmonotonic_runtime_next(long *is, long *ie) { return loop_next_common(is, ie); }
int GOMP_loop_maybe_nonmonotonic_runtime_next(long *is, long *ie) {
    return loop_next_common(is, ie);
}

void GOMP_loop_end_nowait(void) {
    if (!g_team)
        return;
    WorkShare **slot = cur_ws_slot();
    if (*slot) {
        ws_leave(*slot);
        *slot = NULL;
    }
}
void GOMP_loop_end(void) {
    GOMP_loop_end_nowait();
    GOMP_barrier();
}
int GOMP_loop_end_cancel(void) {
    GOMP_loop_end();
    return 0;
}

/* unsigned long long variants */
typedef unsigned long long ull;
int GOMP_loop_ull_nonmonotonic_dynamic_start(int up, ull s, ull e, ull i, ull c, ull *is,
                                             ull *ie) {
    long a, b;
    int r = loop_start_common((long)s, (long)e, up ? (long)i : -(long)(-i), (long)c, &a, &b, 0);
    *is = (ull)a;
    *ie = (ull)b;
    return r;
}
int GOMP_loop_ull_dynamic_start(int up, ull s, ull e, ull i, ull c, ull *is, ull *ie) {
    return GOMP_loop_ull_nonmonotonic_dynamic_start(up, s, e, i, c, is, ie);
}
int GOMP_loop_ull_nonmonotonic_dynamic_next(ull *is, ull *ie) {
    long a, b;
    int r = loop_next_common(&a, &b);
    *is = (ull)a;
    *ie = (ull)b;
    return r;
}
int GOMP_loop_ull_dynamic_next(ull *is, ull *ie) {
    return GOMP_loop_ull_nonmonotonic_dynamic_next(is, ie);
}

int GOMP_loop_ull_guided_start(int up, ull s, ull e, ull i, ull c, ull *is, ull *ie) {
    long a, b;
    int r = loop_start_common((long)s, (long)e, up ? (long)i : -(long)(-i), (long)c, &a, &b, 1);
    *is = (ull)a;
    *ie = (ull)b;
    return r;
}
int GOMP_loop_ull_nonmonotonic_guided_start(int up, ull s, ull e, ull i, ull c, ull *is,
                                            ull *ie) {
    return GOMP_loop_ull_guided_start(up, s, e, i, c, is, ie);
}
int GOMP_loop_ull_runtime_start(int up, ull s, ull e, ull i, ull *is, ull *ie) {
    return GOMP_loop_ull_nonmonotonic_dynamic_start(up, s, e, i, 1, is, ie);
}
int GOMP_loop_ull_nonmonotonic_runtime_start(int up, ull s, ull e, ull i, ull *is, ull *ie) {
    return GOMP_loop_ull_nonmonotonic_dynamic_start(up, s, e, i, 1, is, ie);
}
int GOMP_loop_ull_maybe_nonmonotonic_runtime_start(int up, ull s, ull e, ull i, ull *is,
                                                   ull *ie) {
    return GOMP_loop_ull_nonmonotonic_dynamic_start(up, s, e, i, 1, is, ie);
}
int GOMP_loop_ull_guided_next(ull *is, ull *ie) {
    return GOMP_loop_ull_nonmonotonic_dynamic_next(is, ie);
}
int GOMP_loop_ull_nonmonotonic_guided_next(ull *is, ull *ie) {
    return GOMP_loop_ull_nonmonotonic_dynamic_next(is, ie);
}
int GOMP_loop_ull_runtime_next(ull *is, ull *ie) {
    return GOMP_loop_ull_nonmonotonic_dynamic_next(is, ie);
}
int GOMP_loop_ull_nonmonotonic_runtime_next(ull *is, ull *ie) {
    return GOMP_loop_ull_nonmonotonic_dynamic_next(is, ie);
}
int GOMP_loop_ull_maybe_nonmonotonic_runtime_next(ull *is, ull *ie) {
    return GOMP_loop_ull_nonmonotonic_dynamic_next(is, ie);
}

/* combined parallel + loop */
static void parallel_loop(void (*fn)(void *), void *data, unsigned nt, long s, long e, long i,
                          long c, int guided) {
    WorkShare w;
    memset(&w, 0, sizeof w);
    w.kind = 1;
    /* loop_init needs g_team->n for the shuffle decision; set a temporary */
    Team tmp;
    memset(&tmp, 0, sizeof tmp);
    tmp.n = (g_cur || g_team || g_err) ? 1 : (nt ? (int)nt : g_cfg.nthreads);
    if (g_cfg.team_limit > 0 && tmp.n > g_cfg.team_limit)
        tmp.n = g_cfg.team_limit;
    Team *save = g_team;
    g_team = &tmp;
    loop_init(&w, s, e, i, c, guided);
    g_team = save;
    parallel_impl(fn, data, nt, &w);
}
void GOMP_parallel_loop_nonmonotonic_dynamic(void (*fn)(void *), void *d, unsigned nt, long s,
                                             long e, long i, long c, unsigned fl) {
    (void)fl;
    parallel_loop(fn, d, nt, s, e, i, c, 0);
}
void GOMP_parallel_loop_dynamic(void (*fn)(void *), void *d, unsigned nt, long s, long e, long i,
                                long c, unsigned fl) {
    (void)fl;
    parallel_loop(fn, d, nt, s, e, i, c, 0);
}
void GOMP_parallel_loop_guided(void (*fn)(void *), void *d, unsigned nt, long s, long e, long i,
                               long c, unsigned fl) {
    (void)fl;
    parallel_loop(fn, d, nt, s, e, i, c, 1);
}
void GOMP_parallel_loop_nonmonotonic_guided(void (*fn)(void *), void *d, unsigned nt, long s,
                                            long e, long i, long c, unsigned fl) {
    (void)fl;
    parallel_loop(fn, d, nt, s, e, i, c, 1);
}
void GOMP_parallel_loop_runtime(void (*fn)(void *), void *d, unsigned nt, long s, long e, long i,
                                unsigned fl) {
    (void)fl;
    parallel_loop(fn, d, nt, s, e, i, 1, 0);
}
void GOMP_parallel_loop_nonmonotonic_runtime(void (*fn)(void *), void *d, unsigned nt, long s,
                                             long e, long i, unsigned fl) {
    (void)fl;
    parallel_loop(fn, d, nt, s, e, i, 1, 0);
}
void GOMP_parallel_loop_maybe_nonmonotonic_runtime(void (*fn)(void *), void *d, unsigned nt,
                                                   long s, long e, long i, unsigned fl) {
    (void)fl;
    parallel_loop(fn, d, nt, s, e, i, 1, 0);
}

/* single */
int GOMP_single_start(void) {
    if (!g_team)
        return 1;
    g_st.singles++;
    step_point(0);
    int first;
    WorkShare *w = ws_enter(2, &first);
    int mine = !w->single_taken;
    w->single_taken = 1;
    ws_leave(w);
    return mine;
}

/* sections */
unsigned GOMP_sections_start(unsigned count) {
    if (!g_team)
        return count ? 1 : 0;
    step_point(0);
    int first;
    WorkShare *w = ws_enter(3, &first);
    if (first) {
        w->next = 1;
        w->end = (long)count;
    }
    *cur_ws_slot() = w;
    if (w->next <= w->end)
        return (unsigned)(w->next++);
    return 0;
}
unsigned GOMP_sections_next(void) {
    if (!g_team)
        return 0;
    step_point(0);
    WorkShare *w = *cur_ws_slot();
    if (w && w->next <= w->end)
        return (unsigned)(w->next++);
    return 0;
}
void GOMP_parallel_sections(void (*fn)(void *), void *data, unsigned nt, unsigned count,
                            unsigned flags) {
    (void)flags;
    WorkShare w;
    memset(&w, 0, sizeof w);
    w.kind = 3;
    w.next = 1;
    w.end = (long)count;
    parallel_impl(fn, data, nt, &w);
}
void GOMP_sections_end_nowait(void) { GOMP_loop_end_nowait(); }
void GOMP_sections_end(void) { GOMP_loop_end(); }

/* ------------------------------------------------------------------------------ */
/* compiler-instrumented memory accesses (simtrace build) */
#define ACCESS_BODY                                                                             \
    if (g_cur) {                                                                                \
        g_st.accesses++;                                                                        \
        if (g_in_window) {                                                                      \
            if (g_replaying) {                                                                  \
                step_point(1);                                                                  \
            } else if (--g_countdown <= 0) {                                                    \
                g_countdown = next_interval();                                                  \
                step_point(1);                                                                  \
            } else {                                                                            \
                g_st.steps++;                                                                   \
                g_seg_steps++;                                                                  \
            }                                                                                   \
        }                                                                                       \
    }

void __tsan_init(void) {}
void __tsan_func_entry(void *pc) { (void)pc; }
void __tsan_func_exit(void) {}
#define SHADOW(a, n, wr)                                                                        \
    if (detect_on())                                                                            \
        shadow_access((a), (n), (wr));
void __tsan_read1(void *a) { SHADOW(a, 1, 0) ACCESS_BODY }
void __tsan_read2(void *a) { SHADOW(a, 2, 0) ACCESS_BODY }
void __tsan_read4(void *a) { SHADOW(a, 4, 0) ACCESS_BODY }
void __tsan_read8(void *a) { SHADOW(a, 8, 0) ACCESS_BODY }
void __tsan_read16(void *a) { SHADOW(a, 16, 0) ACCESS_BODY }
void __tsan_write1(void *a) { SHADOW(a, 1, 1) ACCESS_BODY }
void __tsan_write2(void *a) { SHADOW(a, 2, 1) ACCESS_BODY }
void __tsan_write4(void *a) { SHADOW(a, 4, 1) ACCESS_BODY }
void __tsan_write8(void *a) { SHADOW(a, 8, 1) ACCESS_BODY }
void __tsan_write16(void *a) { SHADOW(a, 16, 1) ACCESS_BODY }
void __tsan_unaligned_read2(void *a) { SHADOW(a, 2, 0) ACCESS_BODY }
void __tsan_unaligned_read4(void *a) { SHADOW(a, 4, 0) ACCESS_BODY }
void __tsan_unaligned_read8(void *a) { SHADOW(a, 8, 0) ACCESS_BODY }
void __tsan_unaligned_read16(void *a) { SHADOW(a, 16, 0) ACCESS_BODY }
void __tsan_unaligned_write2(void *a) { SHADOW(a, 2, 1) ACCESS_BODY }
void __tsan_unaligned_write4(void *a) { SHADOW(a, 4, 1) ACCESS_BODY }
void __tsan_unaligned_write8(void *a) { SHADOW(a, 8, 1) ACCESS_BODY }
void __tsan_unaligned_write16(void *a) { SHADOW(a, 16, 1) ACCESS_BODY }
void __tsan_read_range(void *a, unsigned long n) { SHADOW(a, n, 0) ACCESS_BODY }
void __tsan_write_range(void *a, unsigned long n) { SHADOW(a, n, 1) ACCESS_BODY }
void __tsan_vptr_update(void **a, void *b) { (void)a; (void)b; }
void __tsan_vptr_read(void **a) { (void)a; }

/* atomics: executed atomically (no pre-emption inside), a step point before */
typedef int morder;
#define ATOMIC_RMW(name, T, OP)                                                                 \
    T __tsan_atomic##name(volatile T *a, T v, morder mo) {                                      \
        (void)mo;                                                                               \
        g_st.atomics++;                                                                         \
        ACCESS_BODY T old = *a;                                                                 \
        *a = OP;                                                                                \
        return old;                                                                             \
    }
#define ATOMIC_SET(bits, T)                                                                     \
    T __tsan_atomic##bits##_load(const volatile T *a, morder mo) {                              \
        (void)mo;                                                                               \
        ACCESS_BODY return *a;                                                                  \
    }                                                                                           \
    void __tsan_atomic##bits##_store(volatile T *a, T v, morder mo) {                           \
        (void)mo;                                                                               \
        ACCESS_BODY *a = v;                                                                     \
    }                                                                                           \
    ATOMIC_RMW(bits##_exchange, T, v)                                                           \
    ATOMIC_RMW(bits##_fetch_add, T, old + v)                                                    \
    ATOMIC_RMW(bits##_fetch_sub, T, old - v)                                                    \
    ATOMIC_RMW(bits##_fetch_and, T, old &v)                                                     \
    ATOMIC_RMW(bits##_fetch_or, T, old | v)                                                     \
    ATOMIC_RMW(bits##_fetch_xor, T, old ^ v)                                                    \
    int __tsan_atomic##bits##_compare_exchange_strong(volatile T *a, T *c, T v, morder mo,     \
                                                      morder fmo) {                             \
        (void)mo;                                                                               \
        (void)fmo;                                                                              \
        g_st.atomics++;                                                                         \
        ACCESS_BODY if (*a == *c) {                                                             \
            *a = v;                                                                             \
            return 1;                                                                           \
        }                                                                                       \
        *c = *a;                                                                                \
        return 0;                                                                               \
    }                                                                                           \
    int __tsan_atomic##bits##_compare_exchange_weak(volatile T *a, T *c, T v, morder mo,       \
                                                    morder fmo) {                               \
        return __tsan_atomic##bits##_compare_exchange_strong(a, c, v, mo, fmo);                 \
    }                                                                                           \
    T __tsan_atomic##bits##_compare_exchange_val(volatile T *a, T c, T v, morder mo,           \
                                                 morder fmo) {                                  \
        __tsan_atomic##bits##_compare_exchange_strong(a, &c, v, mo, fmo);                       \
        return c;                                                                               \
    }
ATOMIC_SET(8, uint8_t)
ATOMIC_SET(16, uint16_t)
ATOMIC_SET(32, uint32_t)
ATOMIC_SET(64, uint64_t)
void __tsan_atomic_thread_fence(morder mo) { (void)mo; }
void __tsan_atomic_signal_fence(morder mo) { (void)mo; }

/* ------------------------------------------------------------------------------ */
/* allocator: poison fresh and freed memory; canaries around blocks */
#define CANARY 0xC5C5C5C5C5C5C5C5ULL
#define HDR 32
typedef struct {
    uint64_t magic;
    uint64_t size;
    uint64_t canary;
    uint64_t pad;
} BlkHdr;
#define BLK_MAGIC 0x51AB10C0FFEE0001ULL

void *sim_malloc(size_t n) {
    g_st.mallocs++;
    char *raw = (char *)malloc(n + HDR + 8);
    if (!raw)
        return NULL;
    BlkHdr *h = (BlkHdr *)raw;
    h->magic = BLK_MAGIC;
    h->size = n;
    h->canary = CANARY;
    h->pad = CANARY;
    char *p = raw + HDR;
    if (g_cfg.poison) {
        memset(p, g_cfg.poison, n);
        g_st.poisoned_bytes += n;
    }
    uint64_t c = CANARY;
    memcpy(p + n, &c, 8);
    return p;
}
void *sim_calloc(size_t a, size_t b) {
    size_t n = a * b;
    int save = g_cfg.poison;
    g_cfg.poison = 0;
    void *p = sim_malloc(n);
    g_cfg.poison = save;
    if (p)
        memset(p, 0, n);
    return p;
}
void sim_free(void *p) {
    if (!p)
        return;
    BlkHdr *h = (BlkHdr *)((char *)p - HDR);
    if (h->magic != BLK_MAGIC) {
        /* not ours (allocated by an uninstrumented library) */
        free(p);
        return;
    }
    uint64_t c;
    memcpy(&c, (char *)p + h->size, 8);
    if (c != CANARY || h->canary != CANARY || h->pad != CANARY)
        set_err(ERR_CANARY, "heap block overrun detected at free");
    if (g_cfg.poison)
        memset(p, (unsigned char)~g_cfg.poison, h->size);
    if (detect_on())
        shadow_forget(p, h->size); /* the address may be handed to another thread next */
    h->magic = 0;
    free(h);
}
void *sim_realloc(void *p, size_t n) {
    if (!p)
        return sim_malloc(n);
    BlkHdr *h = (BlkHdr *)((char *)p - HDR);
    if (h->magic != BLK_MAGIC)
        return realloc(p, n);
    void *q = sim_malloc(n);
    if (!q)
        return NULL;
    memcpy(q, p, h->size < n ? h->size : n);
    sim_free(p);
    return q;
}

/* ------------------------------------------------------------------------------ */
/* control interface (ctypes) */
void simgomp_begin(uint64_t seed, const SimCfg *cfg) {
    g_cfg = *cfg;
    if (g_cfg.nthreads < 1)
        g_cfg.nthreads = 1;
    if (g_cfg.nthreads > MAX_TEAM)
        g_cfg.nthreads = MAX_TEAM;
    g_rng = seed;
    g_window_salt = rnd();
    memset(&g_st, 0, sizeof g_st);
    g_st.trace_hash = 0xCBF29CE484222325ULL;
    g_err = 0;
    g_errmsg[0] = 0;
    g_ntrace = 0;
    g_nctrace = 0;
    g_trace_overflow = 0;
    g_replaying = 0;
    g_replay_diverged = 0;
    g_active = 1;
    g_team = NULL;
    g_cur = NULL;
    g_in_window = 0;
    g_nconf = 0;
    g_sh_overflow = 0;
    g_nested_multi = 0;
    g_nest_depth = 0;
    g_epoch++;
}
uint64_t simgomp_nested_multi(void) { return g_nested_multi; }
void simgomp_set_replay(const Seg *segs, uint64_t n, const int32_t *chunks, uint64_t nc) {
    g_rp = segs;
    g_nrp = n;
    g_irp = 0;
    g_rp_left = 0;
    g_rpc = chunks;
    g_nrpc = nc;
    g_irpc = 0;
    g_replaying = 1;
}
void simgomp_end(SimStats *out) {
    if (out)
        *out = g_st;
    g_active = 0;
    g_replaying = 0;
}
int simgomp_error(char *buf, int n) {
    if (buf && n > 0)
        snprintf(buf, n, "%s", g_errmsg);
    return g_err;
}
uint64_t simgomp_trace_len(void) { return g_ntrace; }
uint64_t simgomp_ctrace_len(void) { return g_nctrace; }
int simgomp_trace_overflow(void) { return g_trace_overflow; }
void simgomp_get_trace(Seg *segs, int32_t *chunks) {
    if (segs && g_ntrace)
        memcpy(segs, g_trace, g_ntrace * sizeof(Seg));
    if (chunks && g_nctrace)
        memcpy(chunks, g_ctrace, g_nctrace * sizeof(int32_t));
}
uint64_t simgomp_replay_diverged(void) { return g_replay_diverged; }
int simgomp_nregions(void) { return g_nregions; }
void simgomp_region(int i, uint64_t *off, uint64_t *runs, uint64_t *runs_multi, uint64_t *max_team,
                    char *libname, int nlib) {
    Dl_info di;
    *off = 0;
    if (libname && nlib)
        libname[0] = 0;
    if (dladdr(g_regions[i].fn, &di) && di.dli_fbase) {
        *off = (uint64_t)((char *)g_regions[i].fn - (char *)di.dli_fbase);
        if (libname && di.dli_fname)
            snprintf(libname, nlib, "%s", di.dli_fname);
    }
    *runs = g_regions[i].runs;
    *runs_multi = g_regions[i].runs_multi;
    *max_team = g_regions[i].max_team;
}
void simgomp_reset_regions(void) { g_nregions = 0; }
int simgomp_is_trace_build(void) {
#ifdef SIMTRACE
    return 1;
#else
    return 0;
#endif
}

/* ------------------------------------------------------------------------------ */
/* BLAS: dgemm is the only level-3 call made inside parallel regions with a possibly
 * shared output (C := alpha A B + beta C).  Real BLAS is an atomic step for the simulator,
 * which would hide a lost update on C between two threads; in the simtrace build dgemm_ is
 * therefore routed here and split into  read C -> compute into a private copy -> write C
 * with a pre-emption point between the phases (inside pre-emption windows only). */
extern void dgemm_(const char *, const char *, const int *, const int *, const int *,
                   const double *, const double *, const int *, const double *, const int *,
                   const double *, double *, const int *);
static uint64_t g_dgemm_split = 0;
void sim_dgemm_(const char *ta, const char *tb, const int *m, const int *n, const int *k,
                const double *alpha, const double *a, const int *lda, const double *b,
                const int *ldb, const double *beta, double *c, const int *ldc) {
    if (detect_on() && g_cur && *m > 0 && *n > 0) {
        /* BLAS is not instrumented: tell the detector what the call writes */
        for (int j = 0; j < *n; j++)
            shadow_access(c + (size_t)j * (size_t)(*ldc), (unsigned long)(*m) * 8, 1);
    }
    if (!g_cur || !g_in_window || *m <= 0 || *n <= 0) {
        dgemm_(ta, tb, m, n, k, alpha, a, lda, b, ldb, beta, c, ldc);
        return;
    }
    g_dgemm_split++;
    size_t mm = (size_t)*m, nn = (size_t)*n;
    double *tmp = (double *)malloc(mm * nn * sizeof(double));
    for (size_t j = 0; j < nn; j++)
        memcpy(tmp + j * mm, c + j * (size_t)(*ldc), mm * sizeof(double));
    {
        ACCESS_BODY
    }
    int ldt = *m;
    dgemm_(ta, tb, m, n, k, alpha, a, lda, b, ldb, beta, tmp, &ldt);
    {
        ACCESS_BODY
    }
    for (size_t j = 0; j < nn; j++)
        memcpy(c + j * (size_t)(*ldc), tmp + j * mm, mm * sizeof(double));
    free(tmp);
}
uint64_t simgomp_dgemm_splits(void) { return g_dgemm_split; }

/* ------------------------------------------------------------------------------ */
/* entry points a reasonable edit of the code under test could start to use */
typedef struct {
    int owner; /* -1 free, else tid */
    int depth;
} sim_lock_t;
static sim_lock_t *lk(void *p) { return (sim_lock_t *)p; }
void omp_init_lock(void *l) {
    lk(l)->owner = -1;
    lk(l)->depth = 0;
}
void omp_destroy_lock(void *l) { (void)l; }
void omp_set_lock(void *l) {
    int me = omp_get_thread_num();
    step_point(0);
    while (lk(l)->owner != -1 && g_cur) {
        g_st.crit_waits++;
        g_cur->state = ST_CRIT; /* blocked until some lock / critical section is released */
        if (g_replaying)
            g_rp_left = 0;
        yield_to_sched();
    }
    lk(l)->owner = me;
    if (g_cur)
        g_cur->locks_held++;
}
void omp_unset_lock(void *l) {
    lk(l)->owner = -1;
    if (g_cur && g_cur->locks_held > 0)
        g_cur->locks_held--;
    Team *t = g_team;
    if (t && t->th)
        for (int i = 0; i < t->n; i++)
            if (t->th[i].state == ST_CRIT)
                t->th[i].state = ST_RUNNABLE; /* waiters re-check their own condition */
    step_point(0);
}
int omp_test_lock(void *l) {
    step_point(0);
    if (lk(l)->owner != -1)
        return 0;
    lk(l)->owner = omp_get_thread_num();
    if (g_cur)
        g_cur->locks_held++;
    return 1;
}
void omp_init_nest_lock(void *l) { omp_init_lock(l); }
void omp_destroy_nest_lock(void *l) { (void)l; }
void omp_set_nest_lock(void *l) {
    int me = omp_get_thread_num();
    if (lk(l)->owner == me && lk(l)->depth > 0) {
        lk(l)->depth++;
        return;
    }
    omp_set_lock(l);
    lk(l)->depth = 1;
}
void omp_unset_nest_lock(void *l) {
    if (--lk(l)->depth <= 0) {
        lk(l)->depth = 0;
        omp_unset_lock(l);
    }
}
int omp_test_nest_lock(void *l) {
    int me = omp_get_thread_num();
    if (lk(l)->owner == me && lk(l)->depth > 0)
        return ++lk(l)->depth;
    if (!omp_test_lock(l))
        return 0;
    lk(l)->depth = 1;
    return 1;
}

/* single copyprivate */
static void *g_single_copy_data = NULL;
void *GOMP_single_copy_start(void) {
    if (!g_team)
        return NULL;
    int first;
    step_point(0);
    WorkShare *w = ws_enter(2, &first);
    int mine = !w->single_taken;
    w->single_taken = 1;
    ws_leave(w);
    if (mine)
        return NULL; /* this thread executes the block and then calls GOMP_single_copy_end */
    GOMP_barrier();  /* wait for the executing thread's data */
    void *d = g_single_copy_data;
    GOMP_barrier();
    return d;
}
void GOMP_single_copy_end(void *data) {
    if (!g_team)
        return;
    g_single_copy_data = data;
    GOMP_barrier();
    GOMP_barrier();
}

/* ordered: serialised like a critical section (a legal, if conservative, schedule order is
 * NOT guaranteed here, so a run that reaches it is stopped with 'unsupported') */
void GOMP_ordered_start(void) { set_err(ERR_UNSUPPORTED, "omp ordered is not modelled by the simulator"); }
void GOMP_ordered_end(void) {}
void GOMP_taskwait(void) {}
void GOMP_taskyield(void) { step_point(0); }
/* explicit tasks: executed by the encountering thread at the point of creation (an undeferred
 * task is a legal execution of every task construct); the scheduling point before and after
 * lets the other simulated threads interleave with it */
void GOMP_task(void (*fn)(void *), void *data, void (*cpyfn)(void *, void *), long arg_size,
               long arg_align, _Bool if_clause, unsigned flags, void **depend, int priority,
               void *detach) {
    (void)if_clause;
    (void)flags;
    (void)depend;
    (void)priority;
    (void)detach;
    if (g_team)
        step_point(0);
    if (cpyfn) {
        long al = arg_align > 0 ? arg_align : 16;
        char *buf = (char *)malloc((size_t)arg_size + (size_t)al);
        char *arg = (char *)(((uintptr_t)buf + (uintptr_t)al - 1) & ~((uintptr_t)al - 1));
        cpyfn(arg, data);
        fn(arg);
        free(buf);
    } else {
        fn(data);
    }
    if (g_team)
        step_point(0);
}
void GOMP_taskgroup_start(void) {}
void GOMP_taskgroup_end(void) {}

/* taskloop: the iteration space is cut into tasks as libgomp does (grainsize / num_tasks /
 * one per team member) and every task is run undeferred by the encountering thread, with a
 * scheduling point before each, so that the tasks of different encountering threads
 * interleave under the seeded scheduler (and, in the trace build, at every access) */
#define SIM_TASKLOOP(NAME, TYPE)                                                                   \
    void NAME(void (*fn)(void *), void *data, void (*cpyfn)(void *, void *), long arg_size,        \
              long arg_align, unsigned flags, unsigned long num_tasks, int priority, TYPE start,   \
              TYPE end, TYPE step) {                                                               \
        (void)priority;                                                                            \
        unsigned long long n;                                                                      \
        if (flags & (1u << 8)) { /* UP */                                                          \
            if (start >= end)                                                                      \
                return;                                                                            \
            n = ((unsigned long long)(end - start) + (unsigned long long)step - 1) /               \
                (unsigned long long)step;                                                          \
        } else {                                                                                   \
            if (start <= end)                                                                      \
                return;                                                                            \
            n = ((unsigned long long)(start - end) + (unsigned long long)(-step) - 1) /            \
                (unsigned long long)(-step);                                                       \
        }                                                                                          \
        unsigned long long ntasks;                                                                 \
        if (flags & (1u << 9)) { /* GRAINSIZE */                                                   \
            unsigned long long grain = num_tasks ? num_tasks : 1;                                  \
            ntasks = n / grain;                                                                    \
            if (ntasks == 0)                                                                       \
                ntasks = 1;                                                                        \
        } else if (num_tasks == 0) {                                                               \
            ntasks = g_team ? (unsigned long long)g_team->n : 1;                                   \
        } else {                                                                                   \
            ntasks = num_tasks;                                                                    \
        }                                                                                          \
        if (ntasks > n)                                                                            \
            ntasks = n;                                                                            \
        unsigned long long div = n / ntasks, mod = n % ntasks;                                     \
        long al = arg_align > 0 ? arg_align : 16;                                                  \
        char *buf = (char *)malloc((size_t)arg_size + (size_t)al);                                 \
        char *arg = (char *)(((uintptr_t)buf + (uintptr_t)al - 1) & ~((uintptr_t)al - 1));        \
        TYPE s0 = start;                                                                           \
        for (unsigned long long t = 0; t < ntasks; t++) {                                          \
            unsigned long long cnt = div + (t < mod ? 1 : 0);                                      \
            TYPE e0 = s0 + (TYPE)cnt * step;                                                       \
            if (g_team)                                                                            \
                step_point(0);                                                                     \
            if (cpyfn)                                                                             \
                cpyfn(arg, data);                                                                  \
            else                                                                                   \
                memcpy(arg, data, (size_t)arg_size);                                               \
            ((TYPE *)arg)[0] = s0;                                                                 \
            ((TYPE *)arg)[1] = e0;                                                                 \
            fn(arg);                                                                               \
            s0 = e0;                                                                               \
        }                                                                                          \
        free(buf);                                                                                 \
        if (g_team)                                                                                \
            step_point(0);                                                                         \
    }
SIM_TASKLOOP(GOMP_taskloop, long)
SIM_TASKLOOP(GOMP_taskloop_ull, unsigned long long)
