"""Build the C back end of the *current working tree* of CiderPress into /verif/.build.

Nothing is ever written under the repository.  A build directory is keyed by the sha256
of every source/header that goes into it plus the flags, so a check reuses a build only
if the working-tree sources are byte-identical to the ones it was built from.

Variants
  plain     -O2 -g -fopenmp, system libgomp
  sim       -O1 -g -fopenmp, linked against libsimgomp (no libgomp): scheduling points at
            GOMP calls only
  simtrace  sim + -fsanitize=thread at compile time only (the simulator implements the
            __tsan_* entry points) + malloc/calloc/free routed to the simulator
"""
import fcntl
import glob
import hashlib
import os
import shutil
import subprocess
import sys
from concurrent.futures import ThreadPoolExecutor

VERIF_ROOT = os.path.dirname(os.path.dirname(os.path.abspath(__file__)))
BUILD_ROOT = os.environ.get("VERIF_BUILD_ROOT", os.path.join(VERIF_ROOT, ".build"))
CSRC = os.path.join(VERIF_ROOT, "csrc")


class BuildError(Exception):
    pass


def repo_root():
    return os.environ.get("VERIF_REPO", "/repo")


def _pyscf_deps():
    import importlib.util

    spec = importlib.util.find_spec("pyscf")
    base = os.path.join(os.path.dirname(spec.origin), "lib", "deps")
    return os.path.join(base, "include"), os.path.join(base, "lib")


LIBS = {
    "libmcider": dict(
        srcs=[
            "mod_cider/frac_lapl.c",
            "mod_cider/cider_coefs.c",
            "mod_cider/cider_grids.c",
            "mod_cider/spline.c",
            "mod_cider/sph_harm.c",
            "mod_cider/conv_interpolation.c",
            "mod_cider/convolutions.c",
            "mod_cider/fast_sdmx.c",
            "mod_cider/pbc_tools.c",
            "mod_cider/debug_numint.c",
            "mod_cider/model_utils.c",
        ],
        inc=["mod_cider", "fft_wrapper"],
        link=["-lfft_wrapper", "-lopenblas", "-llapack", "-lm"],
        needs=["libfft_wrapper"],
    ),
    "libfft_wrapper": dict(
        srcs=["fft_wrapper/cider_fft.c"],
        inc=["fft_wrapper"],
        link=["-lm"],
        needs=[],
    ),
    "libnumint": dict(
        srcs=["numint_cider/nr_numint.c"],
        inc=["numint_cider"],
        link=["-lopenblas", "-lm"],
        needs=[],
    ),
    "libxc_utils": dict(
        srcs=["xc_utils/libxc_baselines.c"],
        inc=["xc_utils"],
        link=["-lxc", "-lopenblas", "-lm"],
        needs=[],
    ),
}
ORDER = ["libfft_wrapper", "libmcider", "libnumint", "libxc_utils"]

VARIANTS = {
    "plain": dict(cflags=["-O2", "-g", "-fopenmp"], ldflags=["-fopenmp"], sim=False),
    # diagnostic only (not used by any registered check): AddressSanitizer build to locate
    # heap overruns the simulator's canaries report; run python with LD_PRELOAD=libasan
    "asan": dict(cflags=["-O1", "-g", "-fopenmp", "-fsanitize=address", "-fno-omit-frame-pointer"], ldflags=["-fopenmp", "-fsanitize=address"], sim=False),
    "sim": dict(
        cflags=[
            "-O1",
            "-g",
            "-fopenmp",
            "-Dmalloc=sim_malloc",
            "-Dcalloc=sim_calloc",
            "-Dfree=sim_free",
            "-Drealloc=sim_realloc",
            "-include",
            os.path.join(CSRC, "simalloc.h"),
        ],
        ldflags=[],
        sim=True,
    ),
    "simtrace": dict(
        cflags=[
            "-O1",
            "-g",
            "-fopenmp",
            "-fsanitize=thread",
            "-Ddgemm_=sim_dgemm_",
            "-Dmalloc=sim_malloc",
            "-Dcalloc=sim_calloc",
            "-Dfree=sim_free",
            "-Drealloc=sim_realloc",
            "-include",
            os.path.join(CSRC, "simalloc.h"),
        ],
        ldflags=[],
        sim=True,
    ),
}

SIM_SRCS = ["simgomp.c"]
FORBIDDEN_TLS = ("threadprivate", "__thread", "_Thread_local")


def _libdir(repo):
    return os.path.join(repo, "ciderpress", "lib")


def _cmake_sources(repo, sub, target, fallback):
    """source list of add_library(<target> SHARED ...) in <sub>/CMakeLists.txt, so that a
    source file added to (or removed from) the build of the tree under test is followed"""
    import re

    f = os.path.join(_libdir(repo), sub, "CMakeLists.txt")
    try:
        txt = open(f).read()
    except OSError:
        return fallback
    best = None
    for m in re.finditer(r"add_library\(\s*%s\s+SHARED([^)]*)\)" % re.escape(target), txt):
        names = [w for w in m.group(1).split() if w.endswith(".c")]
        # with MPI absent the non-MPI variant is the one CMake would build
        names = [n for n in names if "mpi" not in n.lower()]
        if names and (best is None or len(names) < len(best) or best is None):
            best = names if best is None else best
    if not best:
        return fallback
    out = [sub + "/" + n for n in best]
    if all(os.path.exists(os.path.join(_libdir(repo), x)) for x in out):
        return out
    return fallback


def lib_specs(repo):
    specs = {k: dict(v) for k, v in LIBS.items()}
    specs["libmcider"]["srcs"] = _cmake_sources(repo, "mod_cider", "mcider", LIBS["libmcider"]["srcs"])
    specs["libnumint"]["srcs"] = _cmake_sources(repo, "numint_cider", "numint", LIBS["libnumint"]["srcs"])
    specs["libxc_utils"]["srcs"] = _cmake_sources(repo, "xc_utils", "xc_utils", LIBS["libxc_utils"]["srcs"])
    specs["libfft_wrapper"]["srcs"] = _cmake_sources(repo, "fft_wrapper", "fft_wrapper", LIBS["libfft_wrapper"]["srcs"])
    return specs


def _source_files(repo):
    base = _libdir(repo)
    out = []
    for sub in ("mod_cider", "fft_wrapper", "numint_cider", "xc_utils"):
        for ext in ("*.c", "*.h"):
            out += glob.glob(os.path.join(base, sub, ext))
    return sorted(out)


def source_hash(repo, variant):
    h = hashlib.sha256()
    h.update(variant.encode())
    h.update(repr(VARIANTS[variant]["cflags"]).encode())
    for f in _source_files(repo):
        h.update(os.path.relpath(f, repo).encode())
        with open(f, "rb") as fh:
            h.update(fh.read())
    for f in sorted(glob.glob(os.path.join(CSRC, "*"))):
        h.update(os.path.basename(f).encode())
        with open(f, "rb") as fh:
            h.update(fh.read())
    return h.hexdigest()[:16]


def _run(cmd, cwd=None):
    p = subprocess.run(cmd, cwd=cwd, capture_output=True, text=True)
    if p.returncode != 0:
        raise BuildError("command failed: %s\n%s\n%s" % (" ".join(cmd), p.stdout, p.stderr))
    return p


def check_no_tls(repo):
    for f in _source_files(repo):
        with open(f, "r", errors="replace") as fh:
            txt = fh.read()
        for w in FORBIDDEN_TLS:
            if w in txt:
                raise BuildError(
                    "source %s uses %s: simulated threads share TLS, cannot simulate" % (f, w)
                )


def build(variant="plain", repo=None, verbose=False):
    """Return the directory holding lib*.so for `variant`, building if necessary."""
    repo = repo or repo_root()
    if variant not in VARIANTS:
        raise BuildError("unknown variant " + variant)
    key = source_hash(repo, variant)
    out = os.path.join(BUILD_ROOT, "%s-%s" % (variant, key))
    stamp = os.path.join(out, "BUILD_OK")
    if os.path.exists(stamp):
        try:
            os.utime(stamp, None)  # LRU mark: builds in use are never evicted
        except OSError:
            pass
        return out
    os.makedirs(BUILD_ROOT, exist_ok=True)
    lockf = open(os.path.join(BUILD_ROOT, ".lock-%s" % variant), "w")
    fcntl.flock(lockf, fcntl.LOCK_EX)
    try:
        if os.path.exists(stamp):
            return out
        # evict stale builds of this variant (disk is limited), but never one that another
        # check (e.g. a concurrent run against a scratch tree) used in the last 45 minutes
        import time as _time

        olds = []
        for d in glob.glob(os.path.join(BUILD_ROOT, variant + "-*")):
            if d == out:
                continue
            st = os.path.join(d, "BUILD_OK")
            age = _time.time() - (os.path.getmtime(st) if os.path.exists(st) else os.path.getmtime(d))
            olds.append((age, d))
        olds.sort()
        for rank, (age, d) in enumerate(olds):
            if age > 2700 or (rank >= 10 and age > 600):
                shutil.rmtree(d, ignore_errors=True)
        if os.path.exists(out):
            shutil.rmtree(out)
        os.makedirs(os.path.join(out, "obj"))
        os.makedirs(os.path.join(out, "include"))
        shutil.copy(os.path.join(CSRC, "stub_fftw3.h"), os.path.join(out, "include", "fftw3.h"))
        # cider_fft_config.h is generated by CMake and git-ignored: provide the no-MPI/FFTW
        # configuration when the tree under test does not carry one
        with open(os.path.join(out, "include", "cider_fft_config.h"), "w") as fh:
            fh.write(
                "#ifndef _CIDER_FFT_CONFIG_H\n#define _CIDER_FFT_CONFIG_H\n#define FFT_MKL_BACKEND 1\n"
                "#define FFT_FFTW_BACKEND 2\n#define HAVE_MPI 0\n#define FFT_BACKEND 2\n#endif\n"
            )
        v = VARIANTS[variant]
        if v["sim"]:
            check_no_tls(repo)
        xc_inc, xc_lib = _pyscf_deps()
        base = _libdir(repo)
        jobs = []
        specs = lib_specs(repo)
        for lib in ORDER:
            spec = specs[lib]
            for s in spec["srcs"]:
                obj = os.path.join(out, "obj", lib + "__" + os.path.basename(s)[:-2] + ".o")
                cmd = ["gcc", "-c", "-fPIC", "-w"] + v["cflags"]
                cmd += ["-I" + os.path.join(out, "include"), "-I" + base, "-I" + xc_inc]
                cmd += ["-I" + os.path.join(base, i) for i in spec["inc"]]
                cmd += [os.path.join(base, s), "-o", obj]
                jobs.append(cmd)
        if v["sim"]:
            simflags = ["-O2", "-g", "-fPIC", "-Wall", "-Wno-unused-function"]
            if variant == "simtrace":
                simflags.append("-DSIMTRACE=1")
            for s in SIM_SRCS:
                obj = os.path.join(out, "obj", "sim__" + s[:-2] + ".o")
                jobs.append(["gcc", "-c"] + simflags + [os.path.join(CSRC, s), "-o", obj])
        with ThreadPoolExecutor(max_workers=min(16, os.cpu_count() or 4)) as ex:
            for r in ex.map(lambda c: _run(c), jobs):
                pass
        if v["sim"]:
            objs = sorted(glob.glob(os.path.join(out, "obj", "sim__*.o")))
            _run(["gcc", "-shared", "-o", os.path.join(out, "libsimgomp.so")] + objs + ["-lopenblas", "-lm", "-ldl"])
        for lib in ORDER:
            spec = specs[lib]
            objs = sorted(glob.glob(os.path.join(out, "obj", lib + "__*.o")))
            cmd = ["gcc", "-shared", "-o", os.path.join(out, lib + ".so")] + objs
            cmd += ["-L" + out, "-L" + xc_lib, "-Wl,-rpath," + out, "-Wl,-rpath," + xc_lib]
            cmd += ["-Wl,--no-as-needed"] + spec["link"] + v["ldflags"]
            if v["sim"]:
                cmd += ["-lsimgomp", "-Wl,-z,defs"]
            _run(cmd)
        # symbol table of outlined OpenMP functions, for evidence (region naming)
        if v["sim"]:
            with open(os.path.join(out, "omp_fns.txt"), "w") as fh:
                for lib in ORDER:
                    p = _run(["nm", "--defined-only", os.path.join(out, lib + ".so")])
                    for line in p.stdout.splitlines():
                        parts = line.split()
                        if len(parts) == 3 and "._omp_fn." in parts[2]:
                            fh.write("%s %s %s\n" % (lib, parts[0], parts[2]))
        shutil.rmtree(os.path.join(out, "obj"), ignore_errors=True)
        with open(stamp, "w") as fh:
            fh.write(key + "\n")
        if verbose:
            print("built", variant, "->", out, file=sys.stderr)
        return out
    finally:
        fcntl.flock(lockf, fcntl.LOCK_UN)
        lockf.close()


if __name__ == "__main__":
    for var in sys.argv[1:] or ["plain"]:
        print(build(var, verbose=True))
