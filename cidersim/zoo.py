"""Seeded zoos of synthetic models, settings, molecules, grids and density matrices.

All models are synthetic (the shipped functionals cannot be downloaded here): the same
classes and code paths as the shipped functionals, with seeded random parameters.
Everything is a deterministic function of the `Rng` passed in."""
import numpy as np

from cidersim.prng import Rng, derive


# ---------------------------------------------------------------------------------
# feature settings
# ---------------------------------------------------------------------------------
SETTINGS_KINDS = [
    "sl_nst",
    "sl_npa",
    "sl_ns",
    "sl_np",
    "nldf_j",
    "nldf_j_all",
    "nldf_j_gga",
    "nldf_i",
    "nldf_i_l1",
    "nldf_ij",
    "nldf_k",
    "sdmx",
    "sdmxg",
    "sdmx1",
    "sdmxg1",
    "sdmxfull",
    "nldf_j_sdmx",
]


def _theta(rng, level):
    a0 = rng.choice([1.0, 2.0, 0.5])
    gm = rng.choice([0.03125, 0.0625, 0.0])
    if level == "MGGA":
        tm = rng.choice([0.03125, 0.0625, 0.0])
        return [a0, gm, tm]
    return [a0, gm]


def make_settings(kind, rng, normalizer=True, vary_normalizers=False):
    from ciderpress.dft import settings as S

    sl_mode = {
        "sl_nst": "nst",
        "sl_npa": "npa",
        "sl_ns": "ns",
        "sl_np": "np",
        "nldf_j_gga": "np",
    }.get(kind, rng.choice(["npa", "nst"]))
    sl = S.SemilocalSettings(sl_mode)
    level = sl.level
    nldf = None
    sdmx = None
    if kind in ("nldf_j", "nldf_j_gga", "nldf_j_sdmx"):
        th = _theta(rng, level)
        specs = rng.choice([["se"], ["se", "se_ar2"], ["se_ar2", "se_a2r4"]])
        params = [_theta(rng, level) for _ in specs]
        nldf = S.NLDFSettingsVJ(level, th, rng.choice(["one", "expnt"]) if level == "MGGA" else "one", specs, params)
    elif kind == "nldf_j_all":
        th = _theta(rng, level)
        specs = ["se", "se_ar2", "se_a2r4", "se_erf_rinv"]
        params = [_theta(rng, level) for _ in specs]
        params[3] = params[3] + [rng.choice([0.5, 1.0, 2.0])]
        nldf = S.NLDFSettingsVJ(level, th, "one", specs, params)
    elif kind == "nldf_i":
        th = _theta(rng, level)
        l0 = rng.choice([["se"], ["se", "se_r2"], ["se_apr2", "se_ap"], ["se", "se_ap2r2", "se_lapl"]])
        nldf = S.NLDFSettingsVI(level, th, rng.choice(["one", "expnt"]), l0, [], [])
    elif kind == "nldf_i_l1":
        th = _theta(rng, level)
        l1 = rng.choice([["se_grad"], ["se_rvec"], ["se_grad", "se_rvec"]])
        dots = [(-1, 0), (0, 0)]
        if len(l1) == 2:
            dots += [(0, 1), (-1, 1)]
        nldf = S.NLDFSettingsVI(level, th, "one", rng.choice([["se"], ["se_r2"]]), l1, dots)
    elif kind == "nldf_ij":
        th = _theta(rng, level)
        nldf = S.NLDFSettingsVIJ(
            level,
            th,
            rng.choice(["one", "expnt"]),
            ["se_ap"],
            ["se_grad"],
            [(-1, 0)],
            ["se", "se_ar2"],
            [_theta(rng, level), _theta(rng, level)],
        )
    elif kind == "nldf_k":
        th = _theta(rng, level)
        nldf = S.NLDFSettingsVK(level, th, "one", [_theta(rng, level) for _ in range(rng.randint(1, 2))], "exponential")
    if kind in ("sdmx", "nldf_j_sdmx"):
        sdmx = S.SDMXSettings(rng.choice([[0], [0, 1], [1, 2]]))
    elif kind == "sdmxg":
        sdmx = S.SDMXGSettings([0, 1], 1)
    elif kind == "sdmx1":
        sdmx = S.SDMX1Settings([0, 1], 1)
    elif kind == "sdmxg1":
        sdmx = S.SDMXG1Settings([0, 1], 1, 1)
    elif kind == "sdmxfull":
        # the ratio dictionary is deliberately given in non-ascending key order
        d = rng.choice(
            [
                {2.0: ([0, 1], [2, 1, 1, 0]), 1.0: ([0, 1], [2, 0, 0, 0])},
                {1.5: ([1], [1, 1, 0, 0]), 1.0: ([0, 1, 2], [3, 1, 1, 1]), 2.0: ([0], [1, 0, 0, 0])},
                {1.0: ([0, 1], [2, 1, 0, 0])},
            ]
        )
        sdmx = S.SDMXFullSettings(dict(d))
    if vary_normalizers and sdmx is not None and kind in ("sdmx", "sdmxg", "sdmx1", "nldf_j_sdmx"):
        # (only for the save/load engine) fractional powers of r are documented and supported;
        # the choice is derived from the settings, not drawn from the caller's generator
        r_ = Rng(derive("zoo-sdmx-pows", kind, repr(list(sdmx.pows))))
        if r_.chance(0.4):
            fp = r_.choice([[0, 1.5], [0.5, 1], [0.5], [1, 2.5]])
            sdmx = {"sdmx": lambda: S.SDMXSettings(fp), "nldf_j_sdmx": lambda: S.SDMXSettings(fp), "sdmxg": lambda: S.SDMXGSettings(fp, 1), "sdmx1": lambda: S.SDMX1Settings(fp, 1)}[kind]()
    st = S.FeatureSettings(sl_settings=sl, nldf_settings=nldf, sdmx_settings=sdmx)
    if normalizer:
        try:
            st.assign_reasonable_normalizer()
        except NotImplementedError:
            pass
        else:
            if vary_normalizers:
                # (only where the settings are saved and evaluated on probe inputs: a cutoff
                # of 0 with a negative density power is asking for infinities in an SCF run)
                _vary_normalizers(st, kind)
    return st


def _vary_normalizers(st, kind):
    """A third of the settings get value-dependent normalisers on their last features and a
    density cutoff other than the default (0 is a valid value).  The choice is derived from
    the settings themselves, not drawn from the caller's generator (whose sequence stays as
    it was)."""
    from ciderpress.dft import feat_normalizer as FN

    try:
        lst = list(st.normalizers._normalizers)
    except Exception:
        return
    r = Rng(derive("zoo-normalizers", kind, repr([float(x) for x in st.get_feat_usps()]), len(lst)))
    if not r.chance(0.35) or len(lst) < 4:
        return
    for j in range(3, len(lst)):
        c = r.below(4)
        if lst[j] is None:
            continue
        if c == 0:
            lst[j] = FN.DensityNormalizer(r.choice([0.5, 1.0, 2.0]), r.choice([-0.5, 0.5, 1.0]))
        elif c == 1:
            lst[j] = FN.InhomogeneityNormalizer(r.choice([0.5, 1.0]), r.choice([0.25, 1.0]), r.choice([-1, 1, 2]))
    st.normalizers = FN.FeatNormalizerList(lst, slmode=st.sl_settings.mode, cutoff=r.choice([1e-10, 0, 0.0, 1e-6]))


def feature_signs(settings):
    """For every raw feature: True if it can be negative (decides which map is safe)."""
    n = settings.nfeat
    loc = settings.get_feat_loc()
    signed = [False] * n
    if settings.has_nldf:
        nl = settings.nldf_settings
        specs = []
        v = nl.nldf_type
        if v in ("j", "k"):
            specs = list(nl.feat_specs)
        elif v == "i":
            specs = list(nl.l0_feat_specs) + ["dot"] * len(nl.l1_feat_dots)
        elif v == "ij":
            specs = list(nl.feat_specs) + list(nl.l0_feat_specs) + ["dot"] * len(nl.l1_feat_dots)
        for k, sp in enumerate(specs):
            signed[loc[1] + k] = sp in ("dot", "se_lapl", "se_erf_rinv") or True
    for k in range(loc[3], loc[4]):
        signed[k] = True
    return signed


def make_feature_list(settings, rng):
    from ciderpress.dft import transform_data as td

    mode = settings.sl_settings.mode
    maps = []
    g = lambda: rng.choice([0.25, 0.5, 1.0, 2.0])  # noqa: E731
    if mode in ("npa", "np"):
        maps.append(td.UMap(1, g()))
        if mode == "npa":
            maps.append(td.TMap(1, 2))
    elif mode == "nst":
        maps.append(td.SLXMap(0, 1, g()))
        maps.append(rng.choice([td.SLTMap(0, 2), td.SLBMap(0, 1, 2), td.SLDMap(0, 1, 2)]))
    else:  # ns
        maps.append(td.SLXMap(0, 1, g()))
    nsl = settings.sl_settings.nfeat
    for k in range(nsl, settings.nfeat):
        which = rng.below(3)
        if which == 0:
            maps.append(td.SignedUMap(k, g()))
        elif which == 1:
            maps.append(td.ZMap(k, g(), scale=1.0, center=rng.choice([0.0, 0.5])))
        else:
            maps.append(td.SignedUMap(k, g() * 4))
    if rng.chance(0.3):
        maps.append(td.SLNMap(0, g()))
    return td.FeatureList(maps)


# ---------------------------------------------------------------------------------
# evaluators and models
# ---------------------------------------------------------------------------------
EVALUATOR_KINDS = ["rbf", "kernel", "spline", "linear", "rbf+linear", "spline+rbf", "antisym"]


def _make_fevals(kind, N1, rng, mode, bounds, layout=None):
    from ciderpress.dft import xc_evaluator as xe
    from ciderpress.models.kernels import DiffAntisymRBF, DiffConstantKernel, DiffRBF

    nprng = rng.np_rng()
    fevals = []
    for part in kind.split("+"):
        if part == "antisym" and N1 >= 2:
            # antisymmetric RBF: the kernel has one length scale fewer than there are features
            nctrl = rng.randint(3, 9)
            lo = np.array([max(b[0], -2.0) for b in bounds])
            hi = np.array([min(b[1], 2.0) for b in bounds])
            kern = DiffConstantKernel(float(nprng.uniform(0.5, 1.5)), constant_value_bounds="fixed") * DiffAntisymRBF(length_scale=nprng.uniform(0.3, 1.0, N1 - 1), length_scale_bounds="fixed")
            X1c = lo + (hi - lo) * nprng.uniform(size=(nctrl, N1))
            fevals.append(xe.AntisymRBFEvaluator(kern, X1c, nprng.normal(size=nctrl) * 0.05))
            continue
        if part == "antisym":
            part = "rbf"
        if part in ("rbf", "kernel", "spinrbf"):
            nctrl = rng.randint(3, 9)
            lo = np.array([max(b[0], -2.0) for b in bounds])
            hi = np.array([min(b[1], 2.0) for b in bounds])
            ls = nprng.uniform(0.3, 1.0, N1)
            scale = float(nprng.uniform(0.5, 1.5))
            # a third of the kernels keep the bounds a trained model has (hyper-parameters that the
            # optimiser may move, i.e. a non-empty theta); the choice is derived, not drawn
            bnd = "fixed" if derive("zoo-kernel-bounds", repr(scale)) % 3 else (1e-5, 1e5)
            kern = DiffConstantKernel(scale, constant_value_bounds=bnd) * DiffRBF(
                length_scale=ls, length_scale_bounds=bnd
            )
            alpha = nprng.normal(size=nctrl) * 0.05
            if nctrl >= 4 and derive("zoo-sparse-weights", repr(float(alpha[0]))) % 10 < 3:
                alpha[::2] = 0.0  # a pruned model: exact zeros among the weights (choice derived, not drawn)
            # callers hand over whatever array they have: strided views of a larger pool,
            # Fortran-ordered tables, read-only arrays (all valid NumPy inputs)
            drawn = rng.choice(["c", "c", "strided", "fortran", "cols", "readonly"])
            lay = layout or drawn
            if part == "spinrbf":
                X1c = lo + (hi - lo) * nprng.uniform(size=(2, nctrl, N1))
                fevals.append(xe.SpinRBFEvaluator(kern, X1c, alpha))
            else:
                X1c = lo + (hi - lo) * nprng.uniform(size=(nctrl, N1))
                if lay == "strided":
                    pool = np.full((2 * nctrl, N1), 1e3)
                    pool[::2] = X1c
                    X1c = pool[::2]
                    apool = np.full(2 * nctrl, 1e3)
                    apool[::2] = alpha
                    alpha = apool[::2]
                elif lay == "fortran":
                    X1c = np.asfortranarray(X1c)
                elif lay == "cols":
                    pool = np.full((nctrl, N1 + 3), 1e3)
                    pool[:, 1 : N1 + 1] = X1c
                    X1c = pool[:, 1 : N1 + 1]
                elif lay == "readonly":
                    X1c.setflags(write=False)
                    alpha.setflags(write=False)
                if part == "rbf":
                    fevals.append(xe.RBFEvaluator(kern, X1c, alpha))
                else:
                    fevals.append(xe.KernelEvaluator(kern, X1c, alpha))
        elif part == "linear":
            fevals.append(xe.GlobalLinearEvaluator(nprng.normal(size=N1) * 0.05))
        elif part == "spline":
            from interpolation.splines import UCGrid, filter_cubic

            scale, ind_sets, grids, coefs = [], [], [], []
            nterm = rng.randint(1, 3)
            for t in range(nterm):
                nd = rng.randint(1, min(2, N1))
                inds = rng.sample(list(range(N1)), nd)  # in any order: entry k pairs a feature column with axis k of the table
                dims = []
                for i in inds:
                    lo_, hi_ = bounds[i]
                    lo_ = -3.0 if not np.isfinite(lo_) else float(lo_)
                    hi_ = 3.0 if not np.isfinite(hi_) else float(hi_)
                    dims.append((lo_ - 0.05, hi_ + 0.05, rng.randint(5, 9)))
                gd = UCGrid(*dims)
                vals = nprng.normal(size=tuple(d[2] for d in dims)) * 0.05
                cf = filter_cubic(gd, vals)
                if t > 0 and rng.chance(0.5):
                    # look-alike terms (e.g. independently fitted, nearly spin-symmetric terms):
                    # the same table shape as term 0 with coefficients that are the same object,
                    # an equal copy, or equal up to 1e-12 / 1e-7 / 1e-5 relative
                    nd0 = len(ind_sets[0])
                    if nd0 <= N1:
                        inds = rng.sample(list(range(N1)), nd0)
                        gd = grids[0]
                        eps = rng.choice([None, 0.0, 1e-12, 1e-7, 1e-5])
                        if eps is None:
                            cf = coefs[0]
                        else:
                            cf = coefs[0] * (1.0 + eps * nprng.normal(size=coefs[0].shape))
                scale.append(float(nprng.uniform(0.5, 1.5)))
                ind_sets.append([int(i) for i in inds])
                grids.append(gd)
                coefs.append(cf)
            fevals.append(xe.SplineSetEvaluator(scale, ind_sets, grids, coefs, const=float(nprng.normal() * 0.01)))
        else:
            raise ValueError(part)
    return fevals


def make_model(settings, rng, evaluator="rbf", mode="SEP", version=1, nkernel=1, baselines=None, layout=None):
    """Return a MappedXC (version 1) or MappedXC2 (version 2)."""
    from ciderpress.dft import baselines as B
    from ciderpress.dft import xc_evaluator as xe
    from ciderpress.dft import xc_evaluator2 as xe2

    if version == 2 and settings.sl_settings.level != "MGGA":
        raise ValueError("MappedXC2 needs MGGA-level semilocal settings")
    kernels = []
    for ik in range(nkernel):
        fl = make_feature_list(settings, rng)
        if ik > 0 and derive("zoo-shared-feature-list", repr([type(m_).__name__ for m_ in fl.feat_list])) % 5 < 2:
            # the kernels of one model often use one and the same feature-list object (the draw
            # above is still made, so that the generator's sequence is as before)
            fl = kernels[0].feature_list
        bounds = fl.bounds_list
        ev = evaluator
        if mode == "POL":
            ev = "spinrbf"  # the only evaluator that accepts the (2, nsamp, nfeat) POL layout
        fevals = _make_fevals(ev, fl.nfeat, rng, mode, bounds, layout=layout)
        if version == 1:
            if baselines is None:
                mulname = "LDA_X" if ik == 0 else "RHO"
                addname = rng.choice(["ZERO", "GGA_X_PBE"])
            else:
                mulname, addname = baselines
            if settings.sl_settings.mode in ("nst", "ns") and addname == "GGA_X_PBE":
                addname = "ZERO"  # native PBE baseline assumes feature 1 is s^2
            mul = B.BASELINE_CODES[mulname]
            add = B.BASELINE_CODES[addname] if addname is not None else None
            if mulname == "RHO":
                mul = _rho_baseline
            kernels.append(xe.MappedDFTKernel(fevals, fl, mode, mul, add))
        else:
            if baselines is None:
                mulname = "LDA_X"
                addname = rng.choice([None, "GGA_X_PBE"])
            else:
                mulname, addname = baselines
            kernels.append(xe2.MappedDFTKernel2(fevals, fl, mode, mulname, addname))
    if version == 1:
        return xe.MappedXC(kernels, settings)
    return xe2.MappedXC2(kernels, settings)


def _rho_baseline(X0T):
    e = np.zeros(X0T.shape[-1])
    dedx = np.zeros_like(X0T)
    e[:] = X0T[:, 0].mean(0)
    dedx[:, 0] = 1.0 / X0T.shape[0]
    return e, dedx


# ---------------------------------------------------------------------------------
# probe inputs for model evaluation (normalised feature vectors)
# ---------------------------------------------------------------------------------
def probe_features(settings, nspin, nsamp, rng, extreme=True):
    """Raw (un-normalised) features X0T (nspin, nfeat, nsamp) plus rho_data for MappedXC2."""
    nprng = rng.np_rng()
    nfeat = settings.nfeat
    X = np.empty((nspin, nfeat, nsamp))
    rho = np.exp(nprng.uniform(-9, 2, size=(nspin, nsamp)))
    if extreme and nsamp >= 8:
        rho[:, 0] = 1e-12
        rho[:, 1] = 1e-9
        rho[:, 2] = 0.999e-9
        rho[:, 3] = 1e3
    mode = settings.sl_settings.mode
    X[:, 0] = rho
    s2 = np.exp(nprng.uniform(-6, 3, size=(nspin, nsamp)))
    if extreme and nsamp >= 8:
        s2[:, 4] = 0.0
        s2[:, 5] = 1e4
    if mode in ("npa", "np"):
        X[:, 1] = s2
    else:
        X[:, 1] = s2 * 4 * (3 * np.pi**2) ** (2.0 / 3) * rho ** (8.0 / 3)
    if mode == "npa":
        X[:, 2] = np.exp(nprng.uniform(-4, 3, size=(nspin, nsamp)))
        if extreme and nsamp >= 8:
            X[:, 2, 6] = 0.0
    elif mode == "nst":
        tauw = X[:, 1] / (8 * rho)
        X[:, 2] = tauw + 0.3 * (3 * np.pi**2) ** (2.0 / 3) * rho ** (5.0 / 3) * np.exp(
            nprng.uniform(-4, 2, size=(nspin, nsamp))
        )
    nsl = settings.sl_settings.nfeat
    for k in range(nsl, nfeat):
        X[:, k] = nprng.normal(size=(nspin, nsamp)) * np.exp(nprng.uniform(-3, 2, size=(nspin, nsamp)))
    return X


# ---------------------------------------------------------------------------------
# molecules, grids, density matrices
# ---------------------------------------------------------------------------------
MOLS = {
    "H2": dict(atom="H 0 0 0; H 0 0 0.74", spin=0, charge=0),
    "HeH+": dict(atom="He 0 0 0; H 0 0 0.77", spin=0, charge=1),
    "LiH": dict(atom="Li 0 0 0; H 0 0 1.6", spin=0, charge=0),
    "H2O": dict(atom="O 0 0 0.117; H 0 0.757 -0.469; H 0 -0.757 -0.469", spin=0, charge=0),
    "H": dict(atom="H 0 0 0", spin=1, charge=0),
    "OH": dict(atom="O 0 0 0; H 0 0 0.97", spin=1, charge=0),
    "O": dict(atom="O 0 0 0", spin=2, charge=0),
    "He": dict(atom="He 0 0 0", spin=0, charge=0),
    # the same molecules with the atoms listed in the other order (same natm / nbas, other
    # per-atom layout)
    "HLi": dict(atom="H 0 0 1.6; Li 0 0 0", spin=0, charge=0),
    "HO": dict(atom="H 0 0 0.97; O 0 0 0", spin=1, charge=0),
    "HHe+": dict(atom="H 0 0 0.77; He 0 0 0", spin=0, charge=1),
    "H2O_r": dict(atom="H 0 0.757 -0.469; H 0 -0.757 -0.469; O 0 0 0.117", spin=0, charge=0),
    "Li": dict(atom="Li 0 0 0", spin=1, charge=0),
    "CH4": dict(atom="C 0 0 0; H 0.63 0.63 0.63; H -0.63 -0.63 0.63; H -0.63 0.63 -0.63; H 0.63 -0.63 -0.63", spin=0, charge=0),
    "H6": dict(atom="; ".join("H 0 0 %.2f" % (0.8 * i) for i in range(6)), spin=0, charge=0),
    "H9": dict(atom="; ".join("H %.2f %.2f 0" % (0.9 * (i % 3), 0.9 * (i // 3)) for i in range(9)), spin=1, charge=0),
}


def make_mol(name, basis="sto-3g", shift=None):
    from pyscf import gto

    spec = MOLS[name]
    mol = gto.M(atom=spec["atom"], basis=basis, spin=spec["spin"], charge=spec["charge"], verbose=0, unit="Angstrom")
    if shift is not None:
        c = mol.atom_coords(unit="Bohr") + np.asarray(shift)[None, :]
        mol = mol.set_geom_(c, unit="Bohr", inplace=False)
        mol.verbose = 0
    return mol


def make_dm(mol, rng, nspin=1, scale=0.15):
    """Symmetric, not converged, roughly physical density matrix (or (2,nao,nao))."""
    nprng = rng.np_rng()
    from pyscf import scf

    dm0 = scf.hf.init_guess_by_minao(mol)
    nao = mol.nao_nr()

    def pert(d):
        p = nprng.normal(size=(nao, nao)) * scale * np.abs(d).max()
        p = 0.5 * (p + p.T)
        # keep it positive semi-definite-ish: d + small symmetric perturbation of its factor
        w, v = np.linalg.eigh(d)
        w = np.maximum(w, 0)
        f = v * np.sqrt(w)
        f = f + nprng.normal(size=f.shape) * scale * np.sqrt(np.abs(d).max())
        return f.dot(f.T)

    if nspin == 1:
        return np.ascontiguousarray(pert(dm0))
    na, nb = mol.nelec
    tot = max(na + nb, 1)
    da = pert(dm0 * (na / tot))
    db = pert(dm0 * (nb / tot)) if nb > 0 else pert(dm0 * 0.0) * 0.0
    return np.ascontiguousarray(np.stack([da, db]))


def make_grids(mol, cider, level=0, prune=True, lmax=None):
    if cider:
        from ciderpress.pyscf.gen_cider_grid import CiderGrids

        g = CiderGrids(mol) if lmax is None else CiderGrids(mol, lmax=lmax)
    else:
        from pyscf.dft.gen_grid import Grids

        g = Grids(mol)
    g.level = level
    if not prune:
        g.prune = None
    g.verbose = 0
    g.build()
    return g
