"""Common driver: plan cases, run them on a fork pool with crash attribution, match
violations against known_findings.json, write evidence and replay files, exit protocol.

Exit codes: 0 held / 1 VIOLATION (unlisted) / 2 HARNESS-ERROR.  A timeout never gives 0.
"""
import argparse
import faulthandler
import hashlib
import json
import os
import selectors
import signal
import sys
import time
import traceback

VERIF_ROOT = os.path.dirname(os.path.dirname(os.path.abspath(__file__)))
EVID_DIR = os.path.join(VERIF_ROOT, "evidence")
REPLAY_DIR = os.path.join(VERIF_ROOT, "replays")
FINDINGS = os.path.join(VERIF_ROOT, "known_findings.json")


def log(*a):
    print(*a, file=sys.stderr, flush=True)


# ---------------------------------------------------------------------------------
# fork pool with crash attribution
# ---------------------------------------------------------------------------------
def _worker(wfd, cases, run_case, next_idx, case_timeout, init):
    out = os.fdopen(wfd, "w", buffering=1)
    devnull = None
    cov = None
    if os.environ.get("VERIF_PYCOV"):
        # diagnostic only: line coverage of the package under the generators (which anchored
        # code no generated history reaches); never set by a registered check
        import coverage

        cov = coverage.Coverage(data_file=os.path.join(os.environ["VERIF_PYCOV"], ".coverage"), data_suffix=True, source_pkgs=["ciderpress"])
        cov.start()
    try:
        if init is not None:
            init()
        while True:
            with next_idx.get_lock():
                i = next_idx.value
                next_idx.value += 1
            if i >= len(cases):
                break
            out.write(json.dumps({"start": i}) + "\n")
            out.flush()
            # watchdog: SIGALRM with its default disposition kills the process whatever code
            # (Python, C, a simulated thread on its own stack) is running; no handler involved
            signal.signal(signal.SIGALRM, signal.SIG_DFL)
            signal.setitimer(signal.ITIMER_REAL, float(case_timeout))
            try:
                res = run_case(cases[i])
            except BaseException:
                res = {"harness_error": traceback.format_exc()[-4000:]}
            signal.setitimer(signal.ITIMER_REAL, 0.0)
            out.write(json.dumps({"done": i, "res": res}) + "\n")
            out.flush()
            if isinstance(res, dict) and res.get("_abort"):
                break  # the engine's process state is unusable (e.g. an abandoned simulated region)
    finally:
        if cov is not None:
            try:
                cov.stop()
                cov.save()
            except Exception:
                pass
        try:
            out.flush()
        except Exception:
            pass
        os._exit(0)


def run_pool(cases, run_case, nproc=None, case_timeout=300, wall_budget=None, init=None):
    """Run run_case(case) for every case; returns list of results aligned with cases.

    A result is the dict returned by run_case, or {"crashed": status} if the worker died
    while running it, or None if the wall budget stopped the batch before it started."""
    import multiprocessing as mp

    ctx = mp.get_context("fork")
    nproc = nproc or int(os.environ.get("VERIF_NPROC", os.cpu_count() or 4))
    nproc = max(1, min(nproc, len(cases)))
    next_idx = ctx.Value("l", 0)
    results = [None] * len(cases)
    sel = selectors.DefaultSelector()
    workers = {}
    t0 = time.time()
    sys.stdout.flush()
    sys.stderr.flush()

    def spawn():
        r, w = os.pipe()
        pid = os.fork()
        if pid == 0:
            os.close(r)
            for k in list(workers):
                try:
                    os.close(k)
                except OSError:
                    pass
            _worker(w, cases, run_case, next_idx, case_timeout, init)
            os._exit(0)
        os.close(w)
        workers[r] = {"pid": pid, "buf": b"", "current": None}
        sel.register(r, selectors.EVENT_READ)

    for _ in range(nproc):
        spawn()
    stopped = False
    while workers:
        if wall_budget is not None and not stopped and time.time() - t0 > wall_budget:
            with next_idx.get_lock():
                next_idx.value = max(next_idx.value, len(cases))
            stopped = True
        for key, _ in sel.select(timeout=1.0):
            fd = key.fd
            w = workers[fd]
            data = os.read(fd, 1 << 16)
            if data:
                w["buf"] += data
                while b"\n" in w["buf"]:
                    line, w["buf"] = w["buf"].split(b"\n", 1)
                    msg = json.loads(line)
                    if "start" in msg:
                        w["current"] = msg["start"]
                    else:
                        results[msg["done"]] = msg["res"]
                        w["current"] = None
            else:
                sel.unregister(fd)
                os.close(fd)
                _, status = os.waitpid(w["pid"], 0)
                del workers[fd]
                if w["current"] is not None:
                    results[w["current"]] = {"crashed": status}
                with next_idx.get_lock():
                    remaining = next_idx.value < len(cases)
                if remaining and len(workers) < nproc:
                    spawn()  # replace a worker that died or retired itself
    return results


# ---------------------------------------------------------------------------------
# known findings
# ---------------------------------------------------------------------------------
def load_findings(prop):
    if not os.path.exists(FINDINGS):
        return []
    with open(FINDINGS) as fh:
        data = json.load(fh)
    return [e for e in data.get("findings", []) if e.get("property") == prop]


def fatal_signal(status):
    """signal number if a worker was killed by a memory/arith fault raised by the code it was
    running (not by the watchdog, the OOM killer or an operator), else None"""
    if os.WIFSIGNALED(status) and os.WTERMSIG(status) in (signal.SIGSEGV, signal.SIGBUS, signal.SIGFPE, signal.SIGILL, signal.SIGABRT):
        return os.WTERMSIG(status)
    return None


def key_hash(key):
    return hashlib.sha256(key.encode()).hexdigest()[:10]


# ---------------------------------------------------------------------------------
# main entry used by every engine
# ---------------------------------------------------------------------------------
def parse_args(argv=None):
    ap = argparse.ArgumentParser()
    ap.add_argument("--tier", default=os.environ.get("VERIF_TIER", "quick"), choices=["quick", "thorough"])
    ap.add_argument("--seed", type=int, default=None)
    ap.add_argument("--replay", default=None)
    ap.add_argument("--budget", type=float, default=None, help="wall budget in seconds for the batch")
    ap.add_argument("--nproc", type=int, default=None)
    ap.add_argument("--cases", type=int, default=None, help="override number of seeded cases")
    ap.add_argument("--no-evidence", action="store_true")
    ap.add_argument("--evidence-out", default=None)
    return ap.parse_args(argv)


def get_seed(args):
    if args.seed is not None:
        return args.seed
    s = os.environ.get("VERIF_SEED")
    if s is None or s == "":
        return 0
    try:
        return int(s)
    except ValueError:
        return int(hashlib.sha256(s.encode()).hexdigest()[:12], 16)


def write_replay(prop, viol, seed):
    os.makedirs(REPLAY_DIR, exist_ok=True)
    name = "%s-%s-seed%d.json" % (prop, key_hash(viol["key"]), seed)
    path = os.path.join(REPLAY_DIR, name)
    with open(path, "w") as fh:
        json.dump(viol["replay"], fh, indent=1, sort_keys=True)
    return path


def run_engine(engine, prop, argv=None):
    """engine: module/object with
        LEVEL                     evidence level string
        warm(args)                parent-side set-up before forking (build, imports)
        plan(tier, seed, args)    -> list of JSON case specs
        run_case(spec)            -> {"digest", "nontrivial", "violations":[{key,detail,replay}],
                                      "stats":{...}, "sample":...}
        minimise(viol)            optional -> viol (smaller replay, same key)
        replay(replay_dict)       -> same shape as run_case
        coverage(results, tier)   -> dict with at least rule; may add keys
        assumptions()             -> list of strings
    """
    args = parse_args(argv)
    seed = get_seed(args)
    t0 = time.time()
    print("VERIF property=%s tier=%s seed=%d" % (prop, args.tier, seed), flush=True)
    try:
        engine.warm(args)
    except Exception:
        print("HARNESS-ERROR property=%s stage=warm\n%s" % (prop, traceback.format_exc()), flush=True)
        return 2

    if args.replay:
        with open(args.replay) as fh:
            rp = json.load(fh)
        res = run_pool([rp], engine.replay, nproc=1, case_timeout=1800)[0]
        if res is None or "crashed" in res or "harness_error" in res:
            if res and "crashed" in res and "crash" in rp.get("violation", {}).get("key", "").split(":"):
                print("VIOLATION property=%s replay=%s (reproduced crash)" % (prop, args.replay))
                return 1
            if res and "crashed" in res and fatal_signal(res["crashed"]) is not None:
                # the recorded violation was a wrong result; replaying it now kills the process
                # (memory fault in the code under test): still a failing replay, not a pass
                print("VIOLATION property=%s replay=%s (replay died with signal %d; recorded key=%s)" % (prop, args.replay, fatal_signal(res["crashed"]), rp.get("violation", {}).get("key")))
                return 1
            print("HARNESS-ERROR property=%s stage=replay %r" % (prop, res), flush=True)
            return 2
        want = rp.get("violation", {}).get("key")
        got = [v["key"] for v in res.get("violations", [])]
        print("replay digest=%s violations=%s" % (res.get("digest"), got))
        if want is not None and want in got:
            print("VIOLATION property=%s replay=%s (reproduced key=%s)" % (prop, args.replay, want))
            return 1
        if got:
            print("VIOLATION property=%s replay=%s (different keys than recorded %s)" % (prop, args.replay, want))
            return 1
        print("replay: no violation reproduced")
        return 0

    cases = engine.plan(args.tier, seed, args)
    budget = args.budget
    if budget is None:
        budget = getattr(engine, "BUDGET", {}).get(args.tier)
    groups = getattr(engine, "GROUPS", None)
    if not groups:
        results = run_pool(
            cases,
            engine.run_case,
            nproc=args.nproc,
            case_timeout=getattr(engine, "CASE_TIMEOUT", 600),
            wall_budget=budget,
        )
    else:
        # one pool per group; workers of a group run engine.init_group(name) first
        results = [None] * len(cases)
        for g in groups:
            idx = [i for i, c in enumerate(cases) if c.get("group") == g]
            if not idx:
                continue
            share = None if budget is None else budget * len(idx) / float(len(cases))
            sub = run_pool(
                [cases[i] for i in idx],
                engine.run_case,
                nproc=args.nproc,
                case_timeout=getattr(engine, "CASE_TIMEOUT", 600),
                wall_budget=share,
                init=(lambda g=g: engine.init_group(g)),
            )
            for i, r in zip(idx, sub):
                results[i] = r

    harness_errors = []
    viols = []
    done = []
    for spec, res in zip(cases, results):
        if res is None:
            continue
        if "crashed" in res:
            status = res["crashed"]
            # SIGALRM = our watchdog; SIGKILL = the kernel's out-of-memory killer (or an operator):
            # neither says anything about the code under test by itself
            timed_out = os.WIFSIGNALED(status) and os.WTERMSIG(status) in (signal.SIGALRM, signal.SIGKILL)
            if timed_out:
                # a watchdog kill may just be a slow machine: run the case once more, alone, with
                # three times the allowance, before anything is concluded from it
                again = run_pool(
                    [spec],
                    engine.run_case,
                    nproc=1,
                    case_timeout=3 * getattr(engine, "CASE_TIMEOUT", 600),
                    init=(lambda g=spec.get("group"): engine.init_group(g)) if getattr(engine, "GROUPS", None) else None,
                )[0]
                if again is not None and "crashed" not in again:
                    res = again
                    if "harness_error" in res:
                        harness_errors.append("case %s: %s" % (json.dumps(spec)[:200], res["harness_error"]))
                        continue
                    done.append((spec, res))
                    for v in res.get("violations", []):
                        viols.append(v)
                    continue
                status = again["crashed"] if again else status
            h = getattr(engine, "on_crash", None)
            v = h(spec, status) if h else None
            if v is None:
                harness_errors.append("worker died (status %s%s) on case %s" % (status, ", killed twice (watchdog / out of memory)" if timed_out else "", json.dumps(spec)[:300]))
            else:
                viols.append(v)
            continue
        if "harness_error" in res:
            harness_errors.append("case %s: %s" % (json.dumps(spec)[:200], res["harness_error"]))
            continue
        done.append((spec, res))
        for v in res.get("violations", []):
            viols.append(v)

    findings = load_findings(prop)
    known = {e["key"]: e for e in findings if e.get("status") == "known"}
    seen_known = {}
    unknown = {}
    for v in viols:
        if v["key"] in known:
            seen_known.setdefault(v["key"], v)
        else:
            unknown.setdefault(v["key"], v)

    exit_code = 0
    for k, e in known.items():
        if k in seen_known:
            print("KNOWN-FINDING: property=%s %s" % (prop, e["what_fails"]), flush=True)
        else:
            log("note: listed finding not re-observed in this run: %s" % k)
    reported = []
    max_min = int(os.environ.get("VERIF_MAX_MINIMISE", "3"))
    for n_rep, (k, v) in enumerate(sorted(unknown.items())):
        mini = getattr(engine, "minimise", None)
        # minimisation re-executes cases in fresh processes: do it for the first few distinct
        # violations only; the others are reported with their original (replayable) case
        if mini is not None and n_rep < max_min:
            try:
                v2 = mini(v)
                if v2 is not None and v2["key"] == v["key"]:
                    v = v2
            except Exception:
                log("minimise failed:\n" + traceback.format_exc())
        if isinstance(v.get("replay"), dict) and "violation" not in v["replay"]:
            v["replay"]["violation"] = {"key": v["key"], "detail": v.get("detail")}
        path = write_replay(prop, v, seed)
        reported.append({"key": v["key"], "detail": v.get("detail"), "replay": path})
        print("VIOLATION property=%s replay=%s key=%s detail=%s" % (prop, path, v["key"], str(v.get("detail"))[:300]), flush=True)
        exit_code = 1
    if harness_errors:
        for h in harness_errors[:10]:
            print("HARNESS-ERROR property=%s %s" % (prop, h), flush=True)
        if exit_code == 0:
            exit_code = 2
    if not done and exit_code == 0:
        print("HARNESS-ERROR property=%s no case completed" % prop, flush=True)
        exit_code = 2

    wall = time.time() - t0
    if not args.no_evidence and done:
        cov = engine.coverage(done, args.tier)
        digests = set()
        for spec, res in done:
            if res.get("nontrivial"):
                digests.add(res.get("digest"))
        cov.setdefault("evaluations", len(done))
        cov.setdefault("distinct_nontrivial", len(digests))
        cov["cases_planned"] = len(cases)
        cov["cases_not_started_wall_budget"] = sum(1 for r in results if r is None)
        cov["runs_per_hour"] = round(len(done) / max(wall, 1e-9) * 3600.0, 1)
        cov["known_findings_reobserved"] = sorted(seen_known)
        cov["violations_reported"] = reported
        cov["harness_errors"] = len(harness_errors)
        ev = {
            "property_id": prop,
            "tier": args.tier,
            "seed": seed,
            "level": engine.LEVEL,
            "coverage": cov,
            "assumptions": engine.assumptions(),
            "wall_s": round(wall, 2),
            "violations": len(unknown),
        }
        os.makedirs(EVID_DIR, exist_ok=True)
        outp = args.evidence_out or os.path.join(EVID_DIR, prop + ".json")
        tmp = outp + ".tmp%d" % os.getpid()
        with open(tmp, "w") as fh:
            json.dump(ev, fh, indent=1, sort_keys=True, default=str)
        os.replace(tmp, outp)
    print(
        "DONE property=%s cases=%d/%d violations=%d known=%d harness_errors=%d wall=%.1fs exit=%d"
        % (prop, len(done), len(cases), len(unknown), len(seen_known), len(harness_errors), wall, exit_code),
        flush=True,
    )
    return exit_code
