"""Harness sanity check (outside the C10 claim): with a team of one the simulated OpenMP
runtime must give bit-identical outputs to the plain build running on the real libgomp with
one thread.  usage: python -m cidersim.xcheck <variant> <out.json>"""
import hashlib
import json
import sys


def main():
    variant, outp = sys.argv[1], sys.argv[2]
    from cidersim import boot

    boot.activate(variant)
    import numpy as np

    from cidersim.prng import Rng
    from cidersim.workloads import omp_workloads as W

    sim = None
    if variant != "plain":
        from cidersim import simctl

        sim = simctl.Sim()
    res = {}
    for name in ["evaluators", "plan_coefs", "sdmx", "nldf_gen", "nldf_grad", "debug_numint", "atc_misc", "pbc_helpers", "vxc_numint"]:
        draw, fn = W.WORKLOADS[name]
        for k in range(3):
            p = draw(Rng(7000 + k))
            if sim:
                sim.begin(1, nthreads=1)
            out = fn(p)
            if sim:
                sim.end()
            for kk, v in out.items():
                res["%s/%d/%s" % (name, k, kk)] = hashlib.sha256(np.ascontiguousarray(np.asarray(v, float)).tobytes()).hexdigest()[:16]
    json.dump(res, open(outp, "w"))


if __name__ == "__main__":
    main()
