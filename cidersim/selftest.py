"""Determinism self-test: the same seeded cases must give identical event-log digests and
identical verdicts
  - twice in one process,
  - on 1 worker and on 16 workers,
  - in a fresh interpreter under another PYTHONHASHSEED (ASLR on).
A mismatch means some source of nondeterminism escaped the simulator: HARNESS-ERROR (2).

usage: bin/check selftest [--props C14,C16,C09,C10] [--n 24] [--seed 0]"""
import argparse
import importlib
import json
import os
import subprocess
import sys

from cidersim.cli import ENGINES
from cidersim.driver import run_pool


class _A:
    cases = None
    tier = "quick"


def pick_cases(engine, seed, n):
    a = _A()
    cases = engine.plan("quick", seed, a)
    if len(cases) <= n:
        return cases
    step = len(cases) / float(n)
    sel = [cases[int(i * step)] for i in range(n)]
    # every kind of case is represented: the evenly spaced sample may skip a small class
    # (e.g. the pre-loaded child cases of C10)
    for flag in ("via_child",):
        extra = [c for c in cases if c.get(flag) and c not in sel]
        groups = sorted({c.get("group") for c in extra})
        for g in groups:
            sel.append([c for c in extra if c.get("group") == g][0])
    # ... and at least three cases of every kind of case the engine plans
    for field in ("kind", "hkind"):
        for kv in sorted({c.get(field) for c in cases if c.get(field) is not None}):
            have = [c for c in sel if c.get(field) == kv]
            more = [c for c in cases if c.get(field) == kv and c not in sel]
            sel += more[: max(0, 3 - len(have))]
    return sel


def digests(engine, cases, nproc):
    groups = getattr(engine, "GROUPS", None)
    out = [None] * len(cases)
    if not groups:
        res = run_pool(cases, engine.run_case, nproc=nproc, case_timeout=getattr(engine, "CASE_TIMEOUT", 900))
        for i, r in enumerate(res):
            out[i] = r
    else:
        for g in groups:
            idx = [i for i, c in enumerate(cases) if c.get("group") == g]
            if not idx:
                continue
            res = run_pool([cases[i] for i in idx], engine.run_case, nproc=nproc, case_timeout=getattr(engine, "CASE_TIMEOUT", 900), init=(lambda g=g: engine.init_group(g)))
            for i, r in zip(idx, res):
                out[i] = r
    sig = []
    for r in out:
        if r is None or "digest" not in r:
            sig.append("ERR:" + json.dumps(r)[:200])
        else:
            sig.append(r["digest"] + "|" + ",".join(sorted(v["key"] for v in r.get("violations", []))))
    return sig


def emit(prop, seed, n, nproc):
    engine = importlib.import_module(ENGINES[prop])
    engine.warm(_A())
    cases = pick_cases(engine, seed, n)
    return digests(engine, cases, nproc)


def main(argv):
    ap = argparse.ArgumentParser()
    ap.add_argument("--props", default="C14,C16,C09,C10")
    ap.add_argument("--n", type=int, default=24)
    ap.add_argument("--seed", type=int, default=0)
    ap.add_argument("--emit", default=None, help="internal: print digests of one property as JSON")
    ap.add_argument("--nproc", type=int, default=16)
    args = ap.parse_args(argv)
    if args.emit:
        sig = emit(args.emit, args.seed, args.n, args.nproc)
        print("\nSELFTEST-DIGESTS " + json.dumps(sig))
        return 0
    bad = 0
    for prop in args.props.split(","):
        runs = {}
        for label, env, nproc in (
            ("16 workers, PYTHONHASHSEED=0", {"PYTHONHASHSEED": "0"}, 16),
            ("1 worker (every case in one process, twice)", {"PYTHONHASHSEED": "0"}, 1),
            ("fresh interpreter, PYTHONHASHSEED=4242, 5 workers", {"PYTHONHASHSEED": "4242"}, 5),
        ):
            e = dict(os.environ)
            e.update(env)
            n = args.n if nproc != 1 else max(4, args.n // 3)
            cmd = [sys.executable, "-m", "cidersim.cli", "selftest", "--emit", prop, "--n", str(args.n), "--seed", str(args.seed), "--nproc", str(nproc)]
            p = subprocess.run(cmd, capture_output=True, text=True, env=e)
            line = [l for l in p.stdout.splitlines() if l.startswith("SELFTEST-DIGESTS ")]
            if p.returncode != 0 or not line:
                print("HARNESS-ERROR selftest %s [%s]: rc=%s %s" % (prop, label, p.returncode, p.stderr[-500:]))
                bad += 1
                continue
            runs[label] = json.loads(line[-1][len("SELFTEST-DIGESTS ") :])
            if nproc == 1:
                # second pass in the same worker process order
                p2 = subprocess.run(cmd, capture_output=True, text=True, env=e)
                line2 = [l for l in p2.stdout.splitlines() if l.startswith("SELFTEST-DIGESTS ")]
                runs[label + " (repeat)"] = json.loads(line2[-1][len("SELFTEST-DIGESTS ") :]) if line2 else ["ERR"]
        labels = list(runs)
        ok = True
        for lb in labels[1:]:
            a, b = runs[labels[0]], runs[lb]
            diff = [i for i, (x, y) in enumerate(zip(a, b)) if x != y]
            if len(a) != len(b) or diff:
                ok = False
                print("SELFTEST-MISMATCH %s: '%s' vs '%s' differ at cases %s" % (prop, labels[0], lb, diff[:10]))
                for i in diff[:3]:
                    print("   case %d: %s  !=  %s" % (i, a[i][:120], b[i][:120]))
        errs = sum(1 for s in runs.get(labels[0], []) if s.startswith("ERR")) if labels else 1
        print("selftest %s: %d cases x %d configurations: %s%s" % (prop, len(runs[labels[0]]) if labels else 0, len(labels), "IDENTICAL" if ok else "MISMATCH", " (%d case errors)" % errs if errs else ""))
        if not ok or errs:
            bad += 1
    # simulator (team of one) vs real libgomp (one thread): bit-identical outputs
    if "C10" in args.props.split(","):
        import tempfile

        d = tempfile.mkdtemp(prefix="xcheck_")
        outs = {}
        for variant in ("plain", "sim", "simtrace"):
            f = os.path.join(d, variant + ".json")
            p = subprocess.run([sys.executable, "-m", "cidersim.xcheck", variant, f], capture_output=True, text=True)
            if p.returncode != 0 or not os.path.exists(f):
                print("HARNESS-ERROR xcheck %s: %s" % (variant, p.stderr[-400:]))
                bad += 1
                continue
            outs[variant] = json.load(open(f))
        if len(outs) == 3:
            keys = sorted(outs["plain"])
            diff = [k for k in keys if not (outs["plain"][k] == outs["sim"].get(k) == outs["simtrace"].get(k))]
            print("xcheck: %d outputs, plain(-O2, libgomp, 1 thread) vs sim/simtrace(team 1): %s" % (len(keys), "BIT-IDENTICAL" if not diff else "DIFFER at %s" % diff[:5]))
            if diff:
                bad += 1
        # the simulated runtime against a small OpenMP program with known answers (sections,
        # parallel sections, single, tasks, taskgroup, guided/runtime ull loops, atomics)
        from cidersim import build as _b

        bd = _b.build("sim")
        exe = os.path.join(d, "rt_selftest")
        cc = subprocess.run(
            ["gcc", "-O1", "-fopenmp", "-include", "stdlib.h", os.path.join(_b.CSRC, "rt_selftest.c"), "-o", exe, "-L" + bd, "-lsimgomp", "-Wl,-rpath," + bd, "-Wl,-z,defs"],
            capture_output=True,
            text=True,
        )
        if cc.returncode != 0:
            print("HARNESS-ERROR rt_selftest does not build: %s" % cc.stderr[-400:])
            bad += 1
        else:
            nbad = 0
            for nt in (1, 2, 3, 4, 7, 16):
                for strat in range(7):
                    for nested in (0, 3):
                        p = subprocess.run([exe, str(nt), str(strat), str(nested)], capture_output=True, text=True)
                        if p.returncode != 0:
                            nbad += 1
                            print("HARNESS-ERROR rt_selftest nt=%d strategy=%d nested=%d: %s" % (nt, strat, nested, p.stdout.strip()[-200:]))
            print("rt_selftest: 84 (team size, strategy, nested teams off/on) runs of the OpenMP construct program: %s" % ("OK" if not nbad else "%d WRONG" % nbad))
            bad += 1 if nbad else 0
        import shutil

        shutil.rmtree(d, ignore_errors=True)
    if bad:
        print("HARNESS-ERROR selftest: nondeterminism detected")
        return 2
    return 0
