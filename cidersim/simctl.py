"""ctypes interface to libsimgomp (the simulated OpenMP runtime)."""
import ctypes
import os

import numpy as np

from cidersim import boot

STRATS = ["random", "rtc_perm", "round_robin", "starve_one", "greedy_one", "reverse", "rtc_id"]
ERRS = {0: None, 1: "deadlock", 2: "step_cap", 3: "heap_overrun", 4: "replay_diverged", 5: "unsupported", 6: "poisoned"}


class SimCfg(ctypes.Structure):
    _fields_ = [
        ("nthreads", ctypes.c_int),
        ("strategy", ctypes.c_int),
        ("chunk_shuffle", ctypes.c_int),
        ("preempt_mean", ctypes.c_int),
        ("window_pct", ctypes.c_int),
        ("poison", ctypes.c_int),
        ("record_trace", ctypes.c_int),
        ("team_limit", ctypes.c_int),
        ("max_steps", ctypes.c_uint64),
        ("window_fn", ctypes.c_uint64),
        ("flags", ctypes.c_uint64),
    ]


STAT_FIELDS = [
    "regions",
    "regions_multi",
    "steps",
    "accesses",
    "switches",
    "preemptions",
    "barriers",
    "chunks",
    "chunk_shuffles",
    "criticals",
    "crit_waits",
    "singles",
    "mallocs",
    "poisoned_bytes",
    "trace_hash",
    "nested",
    "starved_regions",
    "atomics",
]


class SimStats(ctypes.Structure):
    _fields_ = [(f, ctypes.c_uint64) for f in STAT_FIELDS]


SEG = np.dtype([("tid", np.int32), ("nsteps", np.int32)])


class Sim:
    def __init__(self):
        self.lib = boot.simlib()
        if self.lib is None:
            raise RuntimeError("boot not activated with a sim variant")
        L = self.lib
        L.simgomp_begin.argtypes = [ctypes.c_uint64, ctypes.POINTER(SimCfg)]
        L.simgomp_end.argtypes = [ctypes.POINTER(SimStats)]
        L.simgomp_error.argtypes = [ctypes.c_char_p, ctypes.c_int]
        L.simgomp_trace_len.restype = ctypes.c_uint64
        L.simgomp_ctrace_len.restype = ctypes.c_uint64
        L.simgomp_replay_diverged.restype = ctypes.c_uint64
        L.simgomp_nested_multi.restype = ctypes.c_uint64
        L.simgomp_get_trace.argtypes = [ctypes.c_void_p, ctypes.c_void_p]
        L.simgomp_set_replay.argtypes = [ctypes.c_void_p, ctypes.c_uint64, ctypes.c_void_p, ctypes.c_uint64]
        self.is_trace = bool(L.simgomp_is_trace_build())
        self._keep = None
        self._syms = None

    def begin(self, seed, nthreads=1, strategy="rtc_id", chunk_shuffle=0, preempt_mean=0, window_pct=100, poison=0, record=False, max_steps=0, replay=None, window_fn=0, team_limit=0, detect=False, nested=0):
        cfg = SimCfg(
            int(nthreads),
            STRATS.index(strategy) if isinstance(strategy, str) else int(strategy),
            int(chunk_shuffle),
            int(preempt_mean),
            int(window_pct),
            int(poison),
            int(bool(record)),
            int(team_limit),
            int(max_steps),
            int(window_fn),
            (1 if detect else 0) | ((int(nested) & 0xFF) << 8),
        )
        self.lib.simgomp_begin(ctypes.c_uint64(seed & ((1 << 64) - 1)), ctypes.byref(cfg))
        if replay is not None:
            segs = np.ascontiguousarray(np.asarray([tuple(x) for x in replay["segs"]], dtype=SEG)) if len(replay["segs"]) else np.zeros(0, dtype=SEG)
            chunks = np.ascontiguousarray(np.asarray(replay.get("chunks", []), dtype=np.int32))
            self._keep = (segs, chunks)
            self.lib.simgomp_set_replay(segs.ctypes.data, len(segs), chunks.ctypes.data, len(chunks))

    def end(self):
        st = SimStats()
        self.lib.simgomp_end(ctypes.byref(st))
        out = {f: int(getattr(st, f)) for f in STAT_FIELDS}
        buf = ctypes.create_string_buffer(256)
        code = self.lib.simgomp_error(buf, 256)
        out["error"] = ERRS.get(code, str(code))
        out["error_msg"] = buf.value.decode(errors="replace")
        out["replay_diverged"] = int(self.lib.simgomp_replay_diverged())
        out["nested_multi"] = int(self.lib.simgomp_nested_multi())
        self._keep = None
        return out

    def conflicts(self):
        """region functions in which the detector saw two threads touch one word in one
        synchronisation epoch (at least one write): [{off, count, ww, rw}]"""
        L = self.lib
        out = []
        for i in range(int(L.simgomp_nconflicts())):
            off, cnt, ww, rw = ctypes.c_uint64(), ctypes.c_uint64(), ctypes.c_uint64(), ctypes.c_uint64()
            L.simgomp_conflict(i, ctypes.byref(off), ctypes.byref(cnt), ctypes.byref(ww), ctypes.byref(rw))
            out.append({"off": off.value, "count": cnt.value, "ww": ww.value, "rw": rw.value})
        return out

    def trace(self):
        n = int(self.lib.simgomp_trace_len())
        nc = int(self.lib.simgomp_ctrace_len())
        segs = np.zeros(n, dtype=SEG)
        chunks = np.zeros(nc, dtype=np.int32)
        self.lib.simgomp_get_trace(segs.ctypes.data, chunks.ctypes.data)
        return {
            "segs": [[int(a), int(b)] for a, b in segs.tolist()],
            "chunks": [int(x) for x in chunks.tolist()],
            "overflow": bool(self.lib.simgomp_trace_overflow()),
        }

    # region table -> names of outlined OpenMP functions
    def _load_syms(self):
        if self._syms is not None:
            return
        self._syms = {}
        p = os.path.join(boot.build_dir(), "omp_fns.txt")
        if os.path.exists(p):
            for line in open(p):
                lib, addr, name = line.split()
                self._syms[(lib, int(addr, 16))] = name

    def regions(self):
        self._load_syms()
        out = {}
        n = self.lib.simgomp_nregions()
        off = ctypes.c_uint64()
        runs = ctypes.c_uint64()
        rm = ctypes.c_uint64()
        mt = ctypes.c_uint64()
        buf = ctypes.create_string_buffer(512)
        for i in range(n):
            self.lib.simgomp_region(i, ctypes.byref(off), ctypes.byref(runs), ctypes.byref(rm), ctypes.byref(mt), buf, 512)
            lib = os.path.basename(buf.value.decode())[:-3]
            name = self._syms.get((lib, off.value), "%s+0x%x" % (lib, off.value))
            out[lib + ":" + name] = {"runs": runs.value, "runs_multi": rm.value, "max_team": mt.value, "off": off.value}
        return out

    def reset_regions(self):
        self.lib.simgomp_reset_regions()

    def all_region_names(self):
        self._load_syms()
        return sorted(lib + ":" + name for (lib, _), name in self._syms.items())
