"""Workloads for E1 (C10): each is a deterministic function of its parameter dict that
drives C entry points through the wrappers the package itself uses and returns a dict
name -> ndarray of every output.  A workload is executed twice by the engine, once with a
team of one (reference) and once under the schedule being explored."""
import ctypes

import numpy as np

from cidersim.prng import Rng, derive

NLDF_KINDS = ["nldf_j", "nldf_j_all", "nldf_j_gga", "nldf_i", "nldf_i_l1", "nldf_ij", "nldf_k"]
SDMX_KINDS = ["sdmx", "sdmxg", "sdmx1", "sdmxg1"]
TINY_MOLS = ["He", "H2", "HeH+", "LiH", "H2O"]


def _rho_data(nprng, nrho, n, scale=1.0):
    rho = np.zeros((nrho, n))
    rho[0] = np.exp(nprng.uniform(-7, 1, n)) * scale
    rho[1:4] = nprng.normal(size=(3, n)) * rho[0] ** (4.0 / 3)
    if nrho > 4:
        sig = (rho[1:4] ** 2).sum(0)
        rho[4] = sig / (8 * rho[0]) + np.abs(nprng.normal(size=n)) * rho[0] ** (5.0 / 3)
    return rho


def _tiny_cider_grids(mol, nrad, nang, lmax, prune):
    from ciderpress.pyscf.gen_cider_grid import CiderGrids

    g = CiderGrids(mol)  # only the default lmax works in CiderGrids; lmax is varied on the generator
    g.atom_grid = (nrad, nang)
    g.prune = prune
    g.verbose = 0
    g.build()
    return g


def draw_nldf_params(rng):
    return {
        "kind": rng.choice(NLDF_KINDS),
        "sseed": rng.below(10**6),
        "mol": rng.choice(TINY_MOLS),
        "nrad": rng.choice([5, 7, 8, 11, 13]),
        "nang": rng.choice([14, 26, 50]),
        "lmax": rng.choice([2, 3, 4, 6]),
        "prune": rng.chance(0.5),
        "plan_type": rng.choice(["gaussian", "spline"]),
        "interp": rng.choice(["onsite_direct", "onsite_spline", "train_gen"]),
        "nspin": rng.choice([1, 2]),
        "aux_lambd": rng.choice([1.8, 2.2, 2.6]),
        "alpha_max": rng.choice([30.0, 100.0, 300.0]),
        "inrad": rng.choice([24, 37, 50]),
        "dseed": rng.below(10**6),
    }


def _make_nldfgen(p):
    from pyscf.dft.gen_grid import nwchem_prune

    from ciderpress.pyscf.nldf_convolutions import PyscfNLDFGenerator
    from cidersim import zoo

    rng = Rng(derive("omp-nldf", p["sseed"]))
    st = zoo.make_settings(p["kind"], rng, normalizer=False)
    mol = zoo.make_mol(p["mol"], "sto-3g")
    grids = _tiny_cider_grids(mol, p["nrad"], p["nang"], p["lmax"], nwchem_prune if p["prune"] else None)
    gen = PyscfNLDFGenerator.from_mol_and_settings(
        mol,
        grids.grids_indexer,
        p["nspin"],
        st.nldf_settings,
        lmax=p["lmax"],
        plan_type=p["plan_type"],
        aux_lambd=p["aux_lambd"],
        aug_beta=max(p["aux_lambd"], 2.0),
        alpha_max=p["alpha_max"],
        interpolator_type=p["interp"],
        nrad=p["inrad"],
        aparam=0.06,
        dparam=0.12,
    )
    if p["interp"] != "train_gen":
        gen.interpolator.set_coords(grids.coords)
    return st, mol, grids, gen


def wl_nldf_gen(p):
    """generator construction (ATC integrals, projection coefficients, spline maps) +
    get_features + get_potential for each spin"""
    st, mol, grids, gen = _make_nldfgen(p)
    out = {}
    nprng = np.random.default_rng(p["dseed"])
    nrho = 5 if st.sl_settings.level == "MGGA" else 4
    ng = grids.weights.size
    if p["interp"] == "train_gen":
        gen.interpolator.set_coords(grids.coords)
    for s in range(p["nspin"]):
        rho = _rho_data(nprng, nrho, ng)
        feat = gen.get_features(rho, spin=s)
        out["feat%d" % s] = feat
        vfeat = nprng.normal(size=feat.shape)
        out["vrho%d" % s] = gen.get_potential(vfeat, spin=s)
    out["w_iap"] = np.asarray(gen.ccl._integrals) if hasattr(gen.ccl, "_integrals") and isinstance(gen.ccl._integrals, np.ndarray) else np.zeros(1)
    return out


def wl_nldf_grad(p):
    """grad_mode path: project_orb2grid_grad, contract_grad_terms, l+1 gradient terms"""
    p = dict(p, interp=p["interp"] if p["interp"] != "train_gen" else "onsite_direct", nspin=1)
    st, mol, grids, gen = _make_nldfgen(p)
    out = {}
    nprng = np.random.default_rng(p["dseed"])
    nrho = 5 if st.sl_settings.level == "MGGA" else 4
    ngrids_ato = grids.grids_indexer.ngrids
    rho = _rho_data(nprng, nrho, ngrids_ato)
    feat = gen.get_features(rho, spin=0, map_grids=False, grad_mode=True)
    out["feat"] = feat
    vfeat = nprng.normal(size=feat.shape)
    vrho, gg, exc = gen.get_potential(vfeat, spin=0, map_grids=False, grad_mode=True)
    out["vrho"] = vrho
    out["gg"] = gg
    out["excsum"] = np.asarray(exc)
    return out


def draw_eval_params(rng):
    return {
        "kind": rng.choice(["rbf", "antisym", "spin"]),
        "n": rng.choice([1, 2, 3, 5, 7, 16, 17, 31, 64, 100, 257]),
        "nctrl": rng.choice([1, 2, 5, 9, 23]),
        "nfeat": rng.choice([1, 2, 3, 6]),
        "dseed": rng.below(10**6),
    }


def wl_evaluators(p):
    from ciderpress.dft import xc_evaluator as xe
    from ciderpress.models.kernels import DiffAntisymRBF, DiffConstantKernel, DiffRBF

    nprng = np.random.default_rng(p["dseed"])
    nf, nc, n = p["nfeat"], p["nctrl"], p["n"]
    out = {}
    ls = nprng.uniform(0.3, 1.2, nf)
    alpha = nprng.normal(size=nc)
    if p["kind"] == "rbf":
        k = DiffConstantKernel(0.7, constant_value_bounds="fixed") * DiffRBF(length_scale=ls, length_scale_bounds="fixed")
        ev = xe.RBFEvaluator(k, nprng.normal(size=(nc, nf)), alpha)
        X1 = nprng.normal(size=(n, nf))
    elif p["kind"] == "antisym":
        k = DiffConstantKernel(0.7, constant_value_bounds="fixed") * DiffAntisymRBF(length_scale=ls, length_scale_bounds="fixed")
        ev = xe.AntisymRBFEvaluator(k, nprng.normal(size=(nc, nf + 1)), alpha)
        X1 = nprng.normal(size=(n, nf + 1))
    else:
        k = DiffConstantKernel(0.7, constant_value_bounds="fixed") * DiffRBF(length_scale=ls, length_scale_bounds="fixed")
        ev = xe.SpinRBFEvaluator(k, nprng.normal(size=(2, nc, nf)), alpha)
        X1 = nprng.normal(size=(2, n, nf))
    # NB: with res=None a 3-D X1 makes RBFEvaluator allocate res with X1.shape[0] (=2)
    # entries while the C routine writes n of them (heap overrun; outside C10, noted in
    # DESIGN.md) -- the package itself always passes the buffers, and so do we.
    res, dres = ev(X1, np.zeros(n), np.zeros(X1.shape))
    out["res"] = res
    out["dres"] = dres
    # accumulate into passed buffers, twice
    res2 = np.full(n, 0.25)
    dres2 = np.full(X1.shape, -0.5)
    ev(X1, res2, dres2)
    ev(X1, res2, dres2)
    out["res_acc"] = res2
    out["dres_acc"] = dres2
    return out


def draw_sdmx_params(rng):
    return {
        "kind": rng.choice(SDMX_KINDS),
        "sseed": rng.below(10**6),
        "mol": rng.choice(TINY_MOLS),
        "basis": rng.choice(["sto-3g", "6-31g", "def2-svp"]),
        "ngrids": rng.choice([1, 3, 16, 57, 112, 200]),
        "nspin": rng.choice([1, 2]),
        "nset": rng.choice([1, 2]),
        "dseed": rng.below(10**6),
    }


def wl_sdmx(p):
    from ciderpress.pyscf.sdmx import EXXSphGenerator
    from cidersim import zoo

    rng = Rng(derive("omp-sdmx", p["sseed"]))
    st = zoo.make_settings(p["kind"], rng, normalizer=False)
    mol = zoo.make_mol(p["mol"], p["basis"])
    gen = EXXSphGenerator.from_settings_and_mol(st.sdmx_settings, p["nspin"], mol)
    nprng = np.random.default_rng(p["dseed"])
    coords = nprng.normal(size=(p["ngrids"], 3)) * 1.5
    nao = mol.nao_nr()
    out = {}
    nd = p["nset"] * p["nspin"]
    dms = []
    for _ in range(nd):
        a = nprng.normal(size=(nao, nao))
        dms.append(a.dot(a.T) / nao)
    dms = np.ascontiguousarray(np.stack(dms))
    if nd == 1:
        dms = dms[0]
    feat = gen.get_features(dms, mol, coords)
    out["feat"] = feat
    vgrid = nprng.normal(size=feat.shape)
    vmat = np.zeros(dms.shape)
    gen.get_vxc_(vmat, vgrid)
    out["vmat"] = vmat
    return out


def draw_debug_params(rng):
    return {
        "version": rng.choice(["i", "j", "k"]),
        "n": rng.choice([1, 2, 3, 7, 16, 33, 64]),
        "m": rng.choice([1, 5, 16, 40, 97]),
        "dseed": rng.below(10**6),
    }


def wl_debug_numint(p):
    from ciderpress.dft import debug_numint as dn

    nprng = np.random.default_rng(p["dseed"])
    n, m = p["n"], p["m"]
    rho = _rho_data(nprng, 5, n)
    rho[0] += 1e-6
    vvrho = _rho_data(nprng, 5, m)
    vvrho[0] += 1e-6
    coords = nprng.normal(size=(n, 3))
    vvcoords = nprng.normal(size=(m, 3))
    vvw = np.abs(nprng.normal(size=m))
    ge = dn.get_get_exponent({"a0": 1.0, "fac_mul": 0.03125})
    feat = dn.get_nonlocal_features(rho, coords, vvrho, vvw, vvcoords, ge, ge, version=p["version"])
    return {"feat": feat}


def draw_plan_params(rng):
    return {
        "kind": rng.choice(NLDF_KINDS),
        "sseed": rng.below(10**6),
        "plan_type": rng.choice(["gaussian", "spline"]),
        "formula": rng.choice(["etb", "zexp"]),
        "order": rng.choice(["gq", "qg"]),
        "n": rng.choice([1, 2, 3, 5, 8, 16, 17, 33, 100, 255]),
        "nalpha": rng.choice([6, 9, 14, 21]),
        "nspin": rng.choice([1, 2]),
        "smooth": rng.chance(0.4),
        "dseed": rng.below(10**6),
    }


def wl_plan_coefs(p):
    """interpolation coefficients for every feature id, exponent evaluation, a2q transforms"""
    from ciderpress.dft.plans import NLDFGaussianPlan, NLDFSplinePlan
    from cidersim import zoo

    rng = Rng(derive("omp-plan", p["sseed"]))
    st = zoo.make_settings(p["kind"], rng, normalizer=False)
    cls = NLDFGaussianPlan if p["plan_type"] == "gaussian" else NLDFSplinePlan
    nl = st.nldf_settings
    alpha0 = nl.theta_params[0] / 64
    lambd = float((3e4 / alpha0) ** (1.0 / (p["nalpha"] - 1)))
    plan = cls(
        nl,
        p["nspin"],
        alpha0,
        lambd,
        p["nalpha"],
        coef_order=p["order"],
        alpha_formula=p["formula"],
        raise_large_expnt_error=not p["smooth"],
        use_smooth_expnt_cutoff=p["smooth"],
    )
    nprng = np.random.default_rng(p["dseed"])
    n = p["n"]
    nrho = 5 if nl.sl_level == "MGGA" else 4
    rho = _rho_data(nprng, nrho, n)
    out = {}
    rho_tuple = plan.get_rho_tuple(rho)
    nfid = plan.num_vj if hasattr(plan, "num_vj") else 0
    ids = [-1] + list(range(len(nl.feat_params)))
    for i in ids:
        try:
            arg = plan.get_interpolation_arguments(rho_tuple, i=i)
        except Exception:
            continue
        a, da = arg[0], arg[1]
        out["arg%d" % i] = a
        out["darg%d" % i] = np.asarray(da)
        c, dc = plan.get_interpolation_coefficients(a, i=i)
        out["p%d" % i] = c
        out["dp%d" % i] = dc
    f = plan.get_function_to_convolve(rho_tuple)
    out["func"] = f[0]
    out["dfunc"] = np.asarray(f[1])
    # a2q transforms (Gaussian plans have a non-trivial transformation, spline plans identity)
    shape = (p["nalpha"], 7) if p["order"] == "qg" else (7, p["nalpha"])
    for i in [-1, 0]:
        for fwd in (True, False):
            x = nprng.normal(size=shape)
            try:
                y = plan.get_transformed_interpolation_terms(x.copy(), i=i, fwd=fwd, inplace=False)
                out["a2q_%d_%d" % (i, fwd)] = y
            except Exception:
                pass
    return out


def draw_e2e_params(rng):
    return {
        "kind": rng.choice(NLDF_KINDS + SDMX_KINDS + ["nldf_j_sdmx", "sl_npa", "sl_ns"]),
        "sseed": rng.below(10**6),
        "mol": rng.choice(["H2", "HeH+", "LiH", "O", "OH"]),
        "ev": rng.choice(["rbf", "rbf+linear", "kernel"]),
        "mode": rng.choice(["SEP", "NPOL", "POL"]),
        "nset": rng.choice([1, 1, 2]),
        "plan_type": rng.choice(["gaussian", "spline"]),
        "interp": rng.choice(["onsite_direct", "onsite_spline"]),
        "dseed": rng.below(10**6),
    }


def wl_e2e(p):
    """NumInt.nr_rks / nr_uks on a tiny molecule with level-0 grids"""
    from pyscf import dft

    from ciderpress.pyscf.dft import make_cider_calc
    from ciderpress.pyscf.nldf_convolutions import PySCFNLDFInitializer
    from cidersim import zoo

    rng = Rng(derive("omp-e2e", p["sseed"]))
    st = zoo.make_settings(p["kind"], rng)
    ml = zoo.make_model(st, rng, evaluator=p["ev"], mode=p["mode"], version=1)
    mol = zoo.make_mol(p["mol"], "sto-3g")
    uks = mol.spin != 0
    ks = dft.UKS(mol) if uks else dft.RKS(mol)
    ks.grids.level = 0
    ks.grids.verbose = 0
    nldf_init = None
    if st.has_nldf:
        nldf_init = PySCFNLDFInitializer(st.nldf_settings, plan_type=p["plan_type"], interpolator_type=p["interp"], nrad=60, aparam=0.05, dparam=0.08, alpha_max=300.0, aux_lambd=2.0)
    ks = make_cider_calc(ks, ml, xmix=0.5, xkernel="GGA_X_PBE", ckernel="GGA_C_PBE", nldf_init=nldf_init)
    ks.grids.atom_grid = (12, 50)
    ks.build()
    ks.grids.build()
    rr = Rng(p["dseed"])
    dms = [zoo.make_dm(mol, rr, 2 if uks else 1) for _ in range(p["nset"])]
    if p["nset"] == 1:
        dm = dms[0]
    else:
        dm = np.stack(dms) if not uks else np.stack(dms, axis=1)
    fn = ks._numint.nr_uks if uks else ks._numint.nr_rks
    n, e, v = fn(mol, ks.grids, ks.xc, dm)
    return {"nelec": np.asarray(n), "excsum": np.asarray(e), "vmat": np.asarray(v)}


WORKLOADS = {
    "nldf_gen": (draw_nldf_params, wl_nldf_gen),
    "nldf_grad": (draw_nldf_params, wl_nldf_grad),
    "evaluators": (draw_eval_params, wl_evaluators),
    "sdmx": (draw_sdmx_params, wl_sdmx),
    "debug_numint": (draw_debug_params, wl_debug_numint),
    "plan_coefs": (draw_plan_params, wl_plan_coefs),
    "e2e": (draw_e2e_params, wl_e2e),
}
