"""Workloads for E1 (C10): each is a deterministic function of its parameter dict that
drives C entry points through the wrappers the package itself uses and returns a dict
name -> ndarray of every output.  A workload is executed twice by the engine, once with a
team of one (reference) and once under the schedule being explored."""
import ctypes
import os

import numpy as np

from cidersim.prng import Rng, derive

NLDF_KINDS = ["nldf_j", "nldf_j_all", "nldf_j_gga", "nldf_i", "nldf_i_l1", "nldf_ij", "nldf_k"]
SDMX_KINDS = ["sdmx", "sdmxg", "sdmx1", "sdmxg1"]
TINY_MOLS = ["He", "H2", "HeH+", "LiH", "H2O"]
MANY_ATOM_MOLS = ["CH4", "H6", "H9"]  # > 4 atoms: dynamic,4 loops over atoms hand out several chunks


PHASE_HOOK = None


def _size(rng, special, hi):
    """a problem size: half the time one of the hand-picked boundary values, otherwise any
    value up to hi (partition bugs depend on arithmetic relations between size and team)"""
    return rng.choice(special) if rng.chance(0.5) else rng.randint(1, hi)


def phase():
    """a point between two library calls of a workload (construction | use, feature pass |
    potential pass): the engine may change the OpenMP thread-count setting here, as a user
    does with omp_set_num_threads / threadpoolctl between calls on long-lived objects"""
    if PHASE_HOOK is not None:
        PHASE_HOOK()


def _rho_data(nprng, nrho, n, scale=1.0):
    rho = np.zeros((nrho, n))
    rho[0] = np.exp(nprng.uniform(-7, 1, n)) * scale
    rho[1:4] = nprng.normal(size=(3, n)) * rho[0] ** (4.0 / 3)
    if nrho > 4:
        sig = (rho[1:4] ** 2).sum(0)
        rho[4] = sig / (8 * rho[0]) + np.abs(nprng.normal(size=n)) * rho[0] ** (5.0 / 3)
    # real densities are not generic: runs of bit-identical points (uniform regions, padded
    # arrays) and tails below every cutoff
    style = int(nprng.integers(0, 4))
    if n > 3 and style == 1:
        rep = nprng.random(n) < 0.3
        rep[0] = False
        for g in np.nonzero(rep)[0]:
            rho[:, g] = rho[:, g - 1]
    elif n > 3 and style == 2:
        k = int(nprng.integers(1, n))
        rho[:, k:] = rho[:, k - 1 : k]  # constant tail
    elif n > 3 and style == 3:
        tail = nprng.random(n) < 0.25
        rho[0, tail] = 10.0 ** nprng.uniform(-14, -10, int(tail.sum()))
        rho[1:, tail] *= 1e-12
    return rho


def _tiny_cider_grids(mol, nrad, nang, lmax, prune, sort_grids=True):
    from ciderpress.pyscf.gen_cider_grid import CiderGrids

    g = CiderGrids(mol)  # only the default lmax works in CiderGrids; lmax is varied on the generator
    g.atom_grid = (nrad, nang)
    g.prune = prune
    g.verbose = 0
    g.build(sort_grids=sort_grids)  # (unsorted: points stay grouped by atom, identity index map)
    return g


def draw_nldf_params(rng):
    return {
        "kind": rng.choice(NLDF_KINDS),
        "sseed": rng.below(10**6),
        "mol": rng.choice(MANY_ATOM_MOLS) if rng.chance(0.15) else rng.choice(TINY_MOLS),
        "nrad": rng.choice([5, 7, 8, 11, 13]),
        "nang": rng.choice([14, 26, 50]),
        "lmax": rng.choice([2, 3, 4, 6]),
        "prune": rng.chance(0.5),
        "plan_type": rng.choice(["gaussian", "spline"]),
        "interp": rng.choice(["onsite_direct", "onsite_spline", "train_gen"]),
        "nspin": rng.choice([1, 2]),
        "aux_lambd": rng.choice([1.8, 2.2, 2.6]),
        "alpha_max": rng.choice([30.0, 100.0, 300.0]),
        "inrad": rng.choice([24, 37, 50]),
        "dseed": rng.below(10**6),
        # exponent formula of the plan stated by the caller (by default it follows the plan type)
        "gen_formula": rng.choice([None, None, None, "etb", "zexp"]),
        "sort_grids": bool(rng.chance(0.8)),
    }


def _make_nldfgen(p):
    from pyscf.dft.gen_grid import nwchem_prune

    from ciderpress.pyscf.nldf_convolutions import PyscfNLDFGenerator
    from cidersim import zoo

    rng = Rng(derive("omp-nldf", p["sseed"]))
    st = zoo.make_settings(p["kind"], rng, normalizer=False)
    mol = zoo.make_mol(p["mol"], "sto-3g")
    grids = _tiny_cider_grids(mol, p["nrad"], p["nang"], p["lmax"], nwchem_prune if p["prune"] else None, sort_grids=p.get("sort_grids", True))
    gen = PyscfNLDFGenerator.from_mol_and_settings(
        mol,
        grids.grids_indexer,
        p["nspin"],
        st.nldf_settings,
        lmax=p["lmax"],
        plan_type=p["plan_type"],
        aux_lambd=p["aux_lambd"],
        aug_beta=max(p["aux_lambd"], 2.0),
        alpha_max=p["alpha_max"],
        interpolator_type=p["interp"],
        nrad=p["inrad"],
        aparam=0.06,
        dparam=0.12,
        **({"alpha_formula": p["gen_formula"]} if p.get("gen_formula") else {}),
    )
    if p["interp"] != "train_gen":
        gen.interpolator.set_coords(grids.coords)
    return st, mol, grids, gen


def wl_nldf_gen(p):
    """generator construction (ATC integrals, projection coefficients, spline maps) +
    get_features + get_potential for each spin"""
    st, mol, grids, gen = _make_nldfgen(p)
    phase()
    out = {}
    nprng = np.random.default_rng(p["dseed"])
    nrho = 5 if st.sl_settings.level == "MGGA" else 4
    ng = grids.weights.size
    if p["interp"] == "train_gen":
        gen.interpolator.set_coords(grids.coords)
    for s in range(p["nspin"]):
        rho = _rho_data(nprng, nrho, ng)
        feat = gen.get_features(rho, spin=s)
        out["feat%d" % s] = feat
        vfeat = nprng.normal(size=feat.shape)
        phase()
        out["vrho%d" % s] = gen.get_potential(vfeat, spin=s)
    out["w_iap"] = np.asarray(gen.ccl._integrals) if hasattr(gen.ccl, "_integrals") and isinstance(gen.ccl._integrals, np.ndarray) else np.zeros(1)
    return out


def wl_nldf_grad(p):
    """grad_mode path: project_orb2grid_grad, contract_grad_terms, l+1 gradient terms"""
    p = dict(p, interp=p["interp"] if p["interp"] != "train_gen" else "onsite_direct", nspin=1)
    st, mol, grids, gen = _make_nldfgen(p)
    phase()
    out = {}
    nprng = np.random.default_rng(p["dseed"])
    nrho = 5 if st.sl_settings.level == "MGGA" else 4
    ngrids_ato = grids.grids_indexer.ngrids
    rho = _rho_data(nprng, nrho, ngrids_ato)
    feat = gen.get_features(rho, spin=0, map_grids=False, grad_mode=True)
    out["feat"] = feat
    vfeat = nprng.normal(size=feat.shape)
    phase()
    vrho, gg, exc = gen.get_potential(vfeat, spin=0, map_grids=False, grad_mode=True)
    out["vrho"] = vrho
    out["gg"] = gg
    out["excsum"] = np.asarray(exc)
    # the next geometry step / SCF cycle on the same generator (work space that lives on the
    # Python objects survives), possibly under another thread-count setting
    phase()
    rho2 = _rho_data(nprng, nrho, ngrids_ato)
    out["feat.2"] = gen.get_features(rho2, spin=0, map_grids=False, grad_mode=True)
    vrho2, gg2, exc2 = gen.get_potential(nprng.normal(size=feat.shape), spin=0, map_grids=False, grad_mode=True)
    out["vrho.2"] = vrho2
    out["gg.2"] = gg2
    out["excsum.2"] = np.asarray(exc2)
    return out


def draw_eval_params(rng):
    p = {
        "kind": rng.choice(["rbf", "antisym", "spin"]),
        "n": _size(rng, [1, 2, 3, 5, 7, 16, 17, 31, 64, 100, 257], 300),
        "nctrl": rng.choice([1, 2, 5, 9, 23]),
        "nfeat": rng.choice([1, 2, 3, 6]),
        "dseed": rng.below(10**6),
    }
    if rng.chance(0.12):
        # production sizes (a grid block x a trained model): code may take another path above
        # some amount of work (parallel `if` clauses, blocked variants)
        p["n"] = rng.randint(4400, 20000)
        p["nctrl"] = rng.choice([23, 40, 64])
    return p


def wl_evaluators(p):
    from ciderpress.dft import xc_evaluator as xe
    from ciderpress.models.kernels import DiffAntisymRBF, DiffConstantKernel, DiffRBF

    nprng = np.random.default_rng(p["dseed"])
    nf, nc, n = p["nfeat"], p["nctrl"], p["n"]
    out = {}
    ls = nprng.uniform(0.3, 1.2, nf)
    alpha = nprng.normal(size=nc)
    if p["kind"] == "rbf":
        k = DiffConstantKernel(0.7, constant_value_bounds="fixed") * DiffRBF(length_scale=ls, length_scale_bounds="fixed")
        ev = xe.RBFEvaluator(k, nprng.normal(size=(nc, nf)), alpha)
        X1 = nprng.normal(size=(n, nf))
    elif p["kind"] == "antisym":
        k = DiffConstantKernel(0.7, constant_value_bounds="fixed") * DiffAntisymRBF(length_scale=ls, length_scale_bounds="fixed")
        ev = xe.AntisymRBFEvaluator(k, nprng.normal(size=(nc, nf + 1)), alpha)
        X1 = nprng.normal(size=(n, nf + 1))
    else:
        k = DiffConstantKernel(0.7, constant_value_bounds="fixed") * DiffRBF(length_scale=ls, length_scale_bounds="fixed")
        ev = xe.SpinRBFEvaluator(k, nprng.normal(size=(2, nc, nf)), alpha)
        X1 = nprng.normal(size=(2, n, nf))
    # NB: with res=None a 3-D X1 makes RBFEvaluator allocate res with X1.shape[0] (=2)
    # entries while the C routine writes n of them (heap overrun; outside C10, noted in
    # DESIGN.md) -- the package itself always passes the buffers, and so do we.
    res, dres = ev(X1, np.zeros(n), np.zeros(X1.shape))
    out["res"] = res
    out["dres"] = dres
    # accumulate into passed buffers, twice
    res2 = np.full(n, 0.25)
    dres2 = np.full(X1.shape, -0.5)
    ev(X1, res2, dres2)
    ev(X1, res2, dres2)
    out["res_acc"] = res2
    out["dres_acc"] = dres2
    return out


def draw_sdmx_params(rng):
    p = _draw_sdmx_params(rng)
    if p["cutoff"] is not None and rng.chance(0.7):
        # a threshold only screens when whole blocks of points are far from an atom
        p["spread"] = rng.choice([4.0, 8.0, 16.0])
        # far blocks last, far blocks first, or near and far blocks interleaved
        p["order"] = rng.choice(["radial", "radial_rev", "blockwise"])
    return p


def _draw_sdmx_params(rng):
    return {
        "kind": rng.choice(SDMX_KINDS + ["sdmxfull"]),  # (full settings: several exponent ratios, own plan class)
        "sseed": rng.below(10**6),
        "mol": rng.choice(TINY_MOLS),
        # (generally contracted sets: several radial functions per shell)
        "basis": rng.choice(["sto-3g", "6-31g", "def2-svp", "ano@3s2p", "ano@2s2p", "cc-pvdz"]),
        # (56 and 128 are block lengths of the SDMX loops: exact multiples have no remainder block)
        "ngrids": _size(rng, [1, 3, 16, 56, 57, 112, 128, 200, 256, 384, 512, 896], 520),
        "nspin": rng.choice([1, 2]),
        "nset": rng.choice([1, 2]),
        "dseed": rng.below(10**6),
        # the caller's screening threshold (a public option of get_features / get_cao): blocks of
        # grid points on which a shell is negligible are skipped
        "cutoff": rng.choice([None, None, 1e-13, 1e-8, 1e-5, 1e-3]),
        "spread": rng.choice([1.5, 1.5, 4.0, 8.0]),
        "order": rng.choice(["random", "radial"]),
        "itype": rng.choice(["gauss_diff", "gauss_diff", "gauss_r2"]),
        # explicit exponent ladder of the generator instead of the one derived from the basis
        "ladder": rng.choice([None, None, None, [0.02, 2.2, 6], [0.05, 1.8, 2], [0.01, 3.0, 12]]),  # (one exponent is rejected in Python)
    }


def _order_points(coords, order, nprng):
    if order in ("radial", "radial_rev", "blockwise"):
        coords = np.ascontiguousarray(coords[np.argsort(np.linalg.norm(coords, axis=1))])
        if order == "radial_rev":
            coords = np.ascontiguousarray(coords[::-1])
        elif order == "blockwise":
            nb_ = (len(coords) + 55) // 56  # the evaluation block of the SDMX loops is 56 points
            perm = nprng.permutation(nb_)
            coords = np.ascontiguousarray(np.concatenate([coords[b_ * 56 : (b_ + 1) * 56] for b_ in perm]))
    return coords


def wl_sdmx(p):
    from ciderpress.pyscf.sdmx import EXXSphGenerator
    from cidersim import zoo

    rng = Rng(derive("omp-sdmx", p["sseed"]))
    st = zoo.make_settings(p["kind"], rng, normalizer=False)
    mol = zoo.make_mol(p["mol"], p["basis"])
    if p.get("itype", "gauss_diff") != "gauss_diff":
        st.sdmx_settings._integral_type = p["itype"]  # (how the package's own tests select it)
    kw = {}
    if p.get("ladder"):
        kw = {"alpha0": p["ladder"][0], "lambd": p["ladder"][1], "nalpha": p["ladder"][2]}
    gen = EXXSphGenerator.from_settings_and_mol(st.sdmx_settings, p["nspin"], mol, **kw)
    phase()
    nprng = np.random.default_rng(p["dseed"])
    coords = nprng.normal(size=(p["ngrids"], 3)) * p.get("spread", 1.5)
    coords = _order_points(coords, p.get("order"), nprng)
    nao = mol.nao_nr()
    out = {}
    nd = p["nset"] * p["nspin"]
    dms = []
    for _ in range(nd):
        a = nprng.normal(size=(nao, nao))
        dms.append(a.dot(a.T) / nao)
    dms = np.ascontiguousarray(np.stack(dms))
    if nd == 1:
        dms = dms[0]
    feat = gen.get_features(dms, mol, coords, cutoff=p.get("cutoff"))
    out["feat"] = feat
    vgrid = nprng.normal(size=feat.shape)
    vmat = np.zeros(dms.shape)
    phase()
    gen.get_vxc_(vmat, vgrid)
    out["vmat"] = vmat
    # the next grid block on the same generator (its Python-side buffers survive the call),
    # of another length, possibly under another thread-count setting
    phase()
    n2 = max(1, int(p["ngrids"] * (0.6 if p["dseed"] % 2 else 1.4)))
    coords2 = _order_points(nprng.normal(size=(n2, 3)) * p.get("spread", 1.5), p.get("order"), nprng)
    feat2 = gen.get_features(dms, mol, coords2, cutoff=p.get("cutoff"))
    out["feat.2"] = feat2
    vmat2 = np.zeros(dms.shape)
    gen.get_vxc_(vmat2, nprng.normal(size=feat2.shape))
    out["vmat.2"] = vmat2
    return out


def draw_debug_params(rng):
    return {
        "version": rng.choice(["i", "j", "k"]),
        "n": _size(rng, [1, 2, 3, 7, 16, 33, 64], 80),
        "m": _size(rng, [1, 5, 16, 40, 97], 120),
        "dseed": rng.below(10**6),
        "floor": bool(rng.chance(0.6)),
    }


def wl_debug_numint(p):
    from ciderpress.dft import debug_numint as dn

    nprng = np.random.default_rng(p["dseed"])
    n, m = p["n"], p["m"]
    rho = _rho_data(nprng, 5, n)
    vvrho = _rho_data(nprng, 5, m)
    if p.get("floor", True):
        rho[0] += 1e-6
        vvrho[0] += 1e-6
    # (without the floor, tail points below the routine's own density threshold are dropped
    # before the C call: the counts it gets vary, down to very few points)
    coords = nprng.normal(size=(n, 3))
    vvcoords = nprng.normal(size=(m, 3))
    vvw = np.abs(nprng.normal(size=m))
    ge = dn.get_get_exponent({"a0": 1.0, "fac_mul": 0.03125})
    feat = dn.get_nonlocal_features(rho, coords, vvrho, vvw, vvcoords, ge, ge, version=p["version"])
    return {"feat": feat}


def draw_plan_params(rng):
    return {
        "kind": rng.choice(NLDF_KINDS),
        "sseed": rng.below(10**6),
        "plan_type": rng.choice(["gaussian", "spline"]),
        "formula": rng.choice(["etb", "zexp"]),
        "order": rng.choice(["gq", "qg"]),
        "n": _size(rng, [1, 2, 3, 5, 8, 16, 17, 33, 100, 255], 300),
        "nalpha": rng.choice([6, 9, 14, 21]),
        "nspin": rng.choice([1, 2]),
        "smooth": rng.chance(0.4),
        "dseed": rng.below(10**6),
        # top of the interpolation range: with the smooth cut-off switched on, exponents above it
        # are legal input (they are what the option is for)
        "amax": rng.choice([3e4, 3e4, 3e4, 300.0, 30.0, 4.0]),
        # grid points of an atomic grid come ordered by radius: the large exponents sit together
        "rho_order": rng.choice(["random", "random", "by_density", "by_density_rev"]),
        # spline plans: a spline table denser than the exponent ladder; plan-level density /
        # exponent thresholds other than the defaults
        "spline_mul": rng.choice([None, None, 2, 3]),
        "plan_rhocut": rng.choice([None, None, 1e-8, 1e-5]),
        "plan_expcut": rng.choice([None, None, 1e-6, 1e-3]),
    }


def wl_plan_coefs(p):
    """interpolation coefficients for every feature id, exponent evaluation, a2q transforms"""
    from ciderpress.dft.plans import NLDFGaussianPlan, NLDFSplinePlan
    from cidersim import zoo

    rng = Rng(derive("omp-plan", p["sseed"]))
    st = zoo.make_settings(p["kind"], rng, normalizer=False)
    cls = NLDFGaussianPlan if p["plan_type"] == "gaussian" else NLDFSplinePlan
    nl = st.nldf_settings
    alpha0 = nl.theta_params[0] / 64
    amax = float(p.get("amax", 3e4)) if p["smooth"] else 3e4
    lambd = float((amax / alpha0) ** (1.0 / (p["nalpha"] - 1)))
    plan = cls(
        nl,
        p["nspin"],
        alpha0,
        lambd,
        p["nalpha"],
        coef_order=p["order"],
        alpha_formula=p["formula"],
        raise_large_expnt_error=not p["smooth"],
        use_smooth_expnt_cutoff=p["smooth"],
        **({"spline_size": p["spline_mul"] * p["nalpha"] + 1} if (p.get("spline_mul") and p["plan_type"] == "spline") else {}),
        **({"rhocut": p["plan_rhocut"]} if p.get("plan_rhocut") else {}),
        **({"expcut": p["plan_expcut"]} if p.get("plan_expcut") else {}),
    )
    nprng = np.random.default_rng(p["dseed"])
    n = p["n"]
    nrho = 5 if nl.sl_level == "MGGA" else 4
    rho = _rho_data(nprng, nrho, n)
    if p.get("rho_order", "random") != "random":
        o_ = np.argsort(rho[0])
        rho = np.ascontiguousarray(rho[:, o_[::-1] if p["rho_order"] == "by_density" else o_])
    out = {}
    rho_tuple = plan.get_rho_tuple(rho)
    nfid = plan.num_vj if hasattr(plan, "num_vj") else 0
    ids = [-1] + list(range(len(nl.feat_params)))
    for i in ids:
        try:
            arg = plan.get_interpolation_arguments(rho_tuple, i=i)
        except Exception:
            continue
        a, da = arg[0], arg[1]
        out["arg%d" % i] = a
        out["darg%d" % i] = np.asarray(da)
        c, dc = plan.get_interpolation_coefficients(a, i=i)
        out["p%d" % i] = c
        out["dp%d" % i] = dc
    # densities over ten orders of magnitude: exponents across the interpolation range, incl.
    # values whose coefficients underflow to subnormals (arguments always come from the
    # package's own, range-checked, get_interpolation_arguments)
    rho2 = _rho_data(nprng, nrho, max(n, 400))
    fac = 10.0 ** nprng.uniform(-7.0, 2.0, rho2.shape[1])
    rho2[0] *= fac
    rho2[1:4] *= fac ** (4.0 / 3)
    if nrho > 4:
        rho2[4] *= fac ** (5.0 / 3)
    if p.get("rho_order", "random") != "random":
        o_ = np.argsort(rho2[0])
        rho2 = np.ascontiguousarray(rho2[:, o_[::-1] if p["rho_order"] == "by_density" else o_])
    for i in ids:
        try:
            a2 = plan.get_interpolation_arguments(plan.get_rho_tuple(rho2), i=i)[0]
            c, dc = plan.get_interpolation_coefficients(a2, i=i)
        except Exception:
            continue
        out["pw%d" % i] = c
        out["dpw%d" % i] = dc
    f = plan.get_function_to_convolve(rho_tuple)
    out["func"] = f[0]
    out["dfunc"] = np.asarray(f[1])
    # a2q transforms (Gaussian plans have a non-trivial transformation, spline plans identity)
    shape = (p["nalpha"], 7) if p["order"] == "qg" else (7, p["nalpha"])
    for i in [-1, 0]:
        for fwd in (True, False):
            x = nprng.normal(size=shape)
            try:
                y = plan.get_transformed_interpolation_terms(x.copy(), i=i, fwd=fwd, inplace=False)
                out["a2q_%d_%d" % (i, fwd)] = y
            except Exception:
                pass
    return out


def draw_e2e_params(rng):
    return {
        "kind": rng.choice(NLDF_KINDS + SDMX_KINDS + ["nldf_j_sdmx", "sl_npa", "sl_ns"]),
        "sseed": rng.below(10**6),
        "mol": rng.choice(["H2", "HeH+", "LiH", "O", "OH"]),
        "ev": rng.choice(["rbf", "rbf+linear", "kernel"]),
        "mode": rng.choice(["SEP", "NPOL", "POL"]),
        "nset": rng.choice([1, 1, 2]),
        "plan_type": rng.choice(["gaussian", "spline"]),
        "interp": rng.choice(["onsite_direct", "onsite_spline"]),
        "dseed": rng.below(10**6),
        "twice": bool(rng.chance(0.3)),
    }


def wl_e2e(p):
    """NumInt.nr_rks / nr_uks on a tiny molecule with level-0 grids"""
    from pyscf import dft

    from ciderpress.pyscf.dft import make_cider_calc
    from ciderpress.pyscf.nldf_convolutions import PySCFNLDFInitializer
    from cidersim import zoo

    rng = Rng(derive("omp-e2e", p["sseed"]))
    st = zoo.make_settings(p["kind"], rng)
    ml = zoo.make_model(st, rng, evaluator=p["ev"], mode=p["mode"], version=1)
    mol = zoo.make_mol(p["mol"], "sto-3g")
    uks = mol.spin != 0
    ks = dft.UKS(mol) if uks else dft.RKS(mol)
    ks.grids.level = 0
    ks.grids.verbose = 0
    nldf_init = None
    if st.has_nldf:
        nldf_init = PySCFNLDFInitializer(st.nldf_settings, plan_type=p["plan_type"], interpolator_type=p["interp"], nrad=60, aparam=0.05, dparam=0.08, alpha_max=300.0, aux_lambd=2.0)
    ks = make_cider_calc(ks, ml, xmix=0.5, xkernel="GGA_X_PBE", ckernel="GGA_C_PBE", nldf_init=nldf_init)
    ks.grids.atom_grid = (12, 50)
    ks.build()
    ks.grids.build()
    rr = Rng(p["dseed"])
    dms = [zoo.make_dm(mol, rr, 2 if uks else 1) for _ in range(p["nset"])]
    if p["nset"] == 1:
        dm = dms[0]
    else:
        dm = np.stack(dms) if not uks else np.stack(dms, axis=1)
    fn = ks._numint.nr_uks if uks else ks._numint.nr_rks
    n, e, v = fn(mol, ks.grids, ks.xc, dm)
    out = {"nelec": np.asarray(n), "excsum": np.asarray(e), "vmat": np.asarray(v)}
    if p.get("twice"):
        # the calculator (and the generators it built in the first call) is used again after
        # the thread-count setting may have changed
        phase()
        dm2 = dm * 0.9
        n2, e2, v2 = fn(mol, ks.grids, ks.xc, dm2)
        out.update({"nelec2": np.asarray(n2), "excsum2": np.asarray(e2), "vmat2": np.asarray(v2)})
    return out


WORKLOADS = {
    "nldf_gen": (draw_nldf_params, wl_nldf_gen),
    "nldf_grad": (draw_nldf_params, wl_nldf_grad),
    "evaluators": (draw_eval_params, wl_evaluators),
    "sdmx": (draw_sdmx_params, wl_sdmx),
    "debug_numint": (draw_debug_params, wl_debug_numint),
    "plan_coefs": (draw_plan_params, wl_plan_coefs),
    "e2e": (draw_e2e_params, wl_e2e),
}


# ---------------------------------------------------------------------------------
# direct ctypes workloads for entry points without a (runnable) Python caller here:
# the FFT-free helpers of pbc_tools.c (their callers need FFTW), the VXC_* routines of
# libnumint (no Python caller in this version) and the GPAW-only ATC helpers.  Arguments
# follow the conventions of the package's own call sites.
# ---------------------------------------------------------------------------------
def _vp(a):
    return a.ctypes.data_as(ctypes.c_void_p)


def draw_vxc_params(rng):
    return {"n": _size(rng, [1, 2, 3, 5, 8, 16, 17, 33, 61, 64], 80), "m": _size(rng, [1, 7, 20, 55], 70), "mul": rng.choice([0.5, 1.0, 2.0]), "dseed": rng.below(10**6)}


def wl_vxc_numint(p):
    from ciderpress.lib import load_library

    lib = _Syms(load_library("libnumint"))
    r = np.random.default_rng(p["dseed"])
    n, m = p["n"], p["m"]
    coords = np.ascontiguousarray(r.normal(size=(n, 3)))
    vvcoords = np.ascontiguousarray(r.normal(size=(m, 3)))
    a = np.abs(r.normal(size=n)) + 0.2
    a2 = np.abs(r.normal(size=n)) + 0.2
    vva = np.abs(r.normal(size=m)) + 0.2
    vvf = r.normal(size=m)
    grad = np.ascontiguousarray(r.normal(size=(n, 3)))
    dedf = r.normal(size=m)
    mul = ctypes.c_double(p["mul"])
    cn, cm = ctypes.c_int(n), ctypes.c_int(m)
    out = {}
    vvt = r.normal(size=m)
    sigs = {
        "VXC_feat_texp": lambda F, U, W: [_vp(F), _vp(U), _vp(W), _vp(vva), _vp(a), _vp(vvf), _vp(vvcoords), _vp(coords), cm, cn, mul],
        "VXC_feat_texp2": lambda F, U, W: [_vp(F), _vp(U), _vp(W), _vp(vva), _vp(a), _vp(vvf), _vp(vvcoords), _vp(coords), cm, cn, mul, _vp(grad)],
        "VXC_feat_vj": lambda F, U, W: [_vp(F), _vp(U), _vp(W), _vp(vva), _vp(a), _vp(vvf), _vp(vvcoords), _vp(coords), cm, cn, mul, _vp(grad)],
        "VXC_feat_vk": lambda F, U, W: [_vp(F), _vp(U), _vp(W), _vp(vva), _vp(a), _vp(vvf), _vp(vvcoords), _vp(coords), cm, cn, mul, _vp(grad)],
        "VXC_feat_vg": lambda F, U, W: [_vp(F), _vp(U), _vp(W), _vp(vva), _vp(a), _vp(vvf), _vp(vvcoords), _vp(coords), cm, cn, _vp(grad)],
        "VXC_feat_vh": lambda F, U, W: [_vp(F), _vp(U), _vp(W), _vp(vva), _vp(vvt), _vp(vvf), _vp(vvcoords), _vp(coords), cm, cn, _vp(grad)],
        "VXC_feat_vg2": lambda F, U, W: [_vp(F), _vp(U), _vp(W), _vp(vva), _vp(vvt), _vp(vvf), _vp(vvcoords), _vp(coords), cm, cn, _vp(grad)],
        "VXC_feat_vi": lambda F, U, W: [_vp(F), _vp(U), _vp(W), _vp(vva), _vp(vvf), _vp(vvcoords), _vp(coords), cm, cn, _vp(grad)],
    }
    for name, mk in sigs.items():
        F = np.zeros(n * 12)
        U = np.zeros(n)
        W = np.zeros(n)
        getattr(lib, name)(*mk(F, U, W))
        out[name + ".F"] = F
        out[name + ".U"] = U
        out[name + ".W"] = W
    F = np.zeros(n * 3)
    lib.VXC_feat_ve(_vp(F), _vp(vva), _vp(a), _vp(a2), _vp(vvf), _vp(vvcoords), _vp(coords), cm, cn)
    out["VXC_feat_ve.F"] = F
    # "derivative" routines: roles of the two grids are swapped (outputs over the first grid)
    for name in ("VXC_dedrho_texp2", "VXC_deriv_l0"):
        DF = np.zeros(n)
        DA = np.zeros(n)
        dedf_n = r.normal(size=(m, 6))
        getattr(lib, name)(_vp(DF), _vp(DA), _vp(np.ascontiguousarray(dedf_n)), _vp(vva), _vp(a), _vp(vvcoords), _vp(coords), cm, cn, mul)
        out[name + ".DF"] = DF
        out[name + ".DA"] = DA
    for name, w in (("VXC_deda1_texp2", 6), ("VXC_feat_l0", 3)):
        F = np.zeros(n * w)
        DF = np.zeros(n * w)
        getattr(lib, name)(_vp(F), _vp(DF), _vp(vva), _vp(a), _vp(vvf), _vp(vvcoords), _vp(coords), cm, cn, mul)
        out[name + ".F"] = F
        out[name + ".DF"] = DF
    return out


def draw_pbc_params(rng):
    g = rng.choice([2, 3, 4, 5, 6, 8])
    return {"fftg": [g, rng.choice([2, 3, 4, 5, 7]), g], "num_fft": rng.choice([1, 2, 3]), "dim1": rng.choice([1, 2, 3, 7, 16, 33]), "dim2": rng.choice([1, 2, 5, 16, 40]), "natm": rng.choice([1, 2, 3]), "nao": rng.choice([1, 3, 8]), "ngrids": _size(rng, [1, 5, 127, 128, 129, 300], 400), "dseed": rng.below(10**6)}


def wl_pbc_helpers(p):
    import ciderpress.dft.plans  # noqa: F401  (loads libmcider through the package's seam)
    from ciderpress.lib import load_library

    lib = _Syms(load_library("libmcider"))
    r = np.random.default_rng(p["dseed"])
    out = {}

    def cplx(*shape):
        return np.ascontiguousarray(r.normal(size=shape) + 1j * r.normal(size=shape))

    d1, d2 = p["dim1"], p["dim2"]
    a, b, c = r.normal(size=(d1, d2)), r.normal(size=d2), r.normal(size=(d1, d2))
    lib.parallel_mul_add_d(_vp(a), _vp(b), _vp(c), ctypes.c_int(d1), ctypes.c_int(d2))
    out["mul_add_d"] = c
    az, bz, cz = cplx(d1, d2), cplx(d2), cplx(d1, d2)
    lib.parallel_mul_add_z(_vp(az), _vp(bz), _vp(cz), ctypes.c_int(d1), ctypes.c_int(d2))
    out["mul_add_z"] = cz.view(np.float64)
    cz2 = np.zeros((d1, d2), dtype=np.complex128)
    lib.parallel_mul_z(_vp(az), _vp(bz), _vp(cz2), ctypes.c_int(d1), ctypes.c_int(d2))
    out["mul_z"] = cz2.view(np.float64)
    cz3 = np.zeros((d1, d2), dtype=np.complex128)
    lib.parallel_mul_dz(_vp(az), _vp(b), _vp(cz3), ctypes.c_int(d1), ctypes.c_int(d2))
    out["mul_dz"] = cz3.view(np.float64)
    cj = cplx(d1 * d2)
    lib.fast_conj(_vp(cj), ctypes.c_size_t(cj.size))
    out["conj"] = cj.view(np.float64)
    fftg = np.asarray(p["fftg"], dtype=np.int32)
    nf = p["num_fft"]
    zs = fftg[2] // 2 + 1
    xr = np.ascontiguousarray(r.normal(size=(nf, fftg[0], fftg[1], 2 * zs)))
    lib.prune_r2c_real(_vp(xr), _vp(fftg), ctypes.c_int(nf))
    out["prune_real"] = xr
    xc = cplx(nf, fftg[0], fftg[1], zs)
    lib.prune_r2c_complex(_vp(xc), _vp(fftg), ctypes.c_int(nf))
    out["prune_cplx"] = xc.view(np.float64)
    xw = cplx(nf * fftg[0] * fftg[1], zs)
    lib.weight_symm_gpts(_vp(xw), ctypes.c_size_t(nf * fftg[0] * fftg[1]), ctypes.c_size_t(int(fftg[2])))
    out["weight_symm"] = xw.view(np.float64)
    for halfc in (0, 1):
        z = zs if halfc else fftg[2]
        xe = cplx(nf, fftg[0], fftg[1], z)
        lib.zero_even_edges_fft(_vp(xe), ctypes.c_int(nf), _vp(fftg), ctypes.c_int(halfc))
        out["zero_edges%d" % halfc] = xe.view(np.float64)
        fftg2 = np.asarray([fftg[0] + 2, fftg[1] + 1, fftg[2] + 2], dtype=np.int32)
        z2 = (fftg2[2] // 2 + 1) if halfc else fftg2[2]
        x1 = cplx(nf, fftg[0], fftg[1], z)
        x2 = np.zeros((nf, fftg2[0], fftg2[1], z2), dtype=np.complex128)
        lib.map_between_fft_meshes(_vp(x1), _vp(fftg), _vp(x2), _vp(fftg2), ctypes.c_double(0.5), ctypes.c_int(halfc), ctypes.c_int(nf))
        out["map_up%d" % halfc] = x2.view(np.float64)
        x3 = np.zeros((nf, fftg[0], fftg[1], z), dtype=np.complex128)
        lib.map_between_fft_meshes(_vp(x2), _vp(fftg2), _vp(x3), _vp(fftg), ctypes.c_double(2.0), ctypes.c_int(halfc), ctypes.c_int(nf))
        out["map_down%d" % halfc] = x3.view(np.float64)
    ng, nao, natm = p["ngrids"], p["nao"], p["natm"]
    ao = cplx(nao, ng)
    atom_list = np.asarray(r.integers(0, natm, nao), dtype=np.int32)
    ang_list = np.asarray(r.integers(0, 4, nao), dtype=np.int32)
    gcoords = np.ascontiguousarray(r.normal(size=(3, ng)))
    acoords = np.ascontiguousarray(r.normal(size=(natm, 3)))
    lib.apply_orb_phases(_vp(ao), _vp(atom_list), _vp(ang_list), _vp(gcoords), _vp(acoords), ctypes.c_int(natm), ctypes.c_int(nao), ctypes.c_int(ng))
    out["orb_phases"] = ao.view(np.float64)
    ncpa, nalpha = 2, 3
    pv = np.zeros((ncpa, nalpha, ng))
    conv = np.ascontiguousarray(r.normal(size=(nao, ng)))
    cr = np.ascontiguousarray(r.normal(size=(ncpa, nao, ng)))
    lib.contract_convolution_d(_vp(pv), _vp(conv), _vp(cr), ctypes.c_int(ncpa), ctypes.c_int(nao), ctypes.c_int(ng), ctypes.c_int(nalpha))
    out["contract_d"] = pv
    pvz = np.zeros((ncpa, nalpha, ng), dtype=np.complex128)
    convz, crz = cplx(nao, ng), cplx(ncpa, nao, ng)
    lib.contract_convolution_z(_vp(pvz), _vp(convz), _vp(crz), ctypes.c_int(ncpa), ctypes.c_int(nao), ctypes.c_int(ng), ctypes.c_int(nalpha))
    out["contract_z"] = pvz.view(np.float64)
    G2 = np.abs(r.normal(size=ng)) * 10
    cv = np.zeros(ng)
    lib.recip_conv_kernel_gaussdiff(_vp(cv), _vp(G2), ctypes.c_double(0.7), ctypes.c_double(1.3), ctypes.c_int(ng))
    out["gaussdiff"] = cv
    mesh = np.asarray([4, 3, 5], dtype=np.int32)
    lat = np.ascontiguousarray(np.diag([5.0, 6.0, 7.0]) + 0.1 * r.normal(size=(3, 3)))
    vq = r.normal(size=int(mesh.prod()))
    Gvec = np.ascontiguousarray(r.normal(size=(ng, 3)) * 2)
    maxqv = np.asarray([2.5, 2.5, 2.5])
    cw = np.zeros(ng)
    lib.recip_conv_kernel_ws(_vp(cw), _vp(vq), _vp(Gvec), _vp(lat), _vp(maxqv), _vp(mesh), ctypes.c_int(ng), ctypes.c_int(vq.size))
    out["ws_kernel"] = cw
    return out


def draw_atc_params(rng):
    return {"mol": rng.choice(TINY_MOLS + MANY_ATOM_MOLS + MANY_ATOM_MOLS), "lmax": rng.choice([1, 2, 3, 4]), "beta": rng.choice([2.0, 2.4, 3.0]), "nq": rng.choice([1, 2, 5, 9]), "nk": rng.choice([1, 3, 8, 17]), "nlm": rng.choice([1, 4, 9]), "nspin": rng.choice([1, 2]), "dseed": rng.below(10**6)}


def wl_atc_misc(p):
    """GPAW-only ATC helpers: solve_atc_coefs_arr, atc_reciprocal_convolution"""
    from pyscf import gto

    from ciderpress.dft.lcao_convolutions import ATCBasis, libcider
    from ciderpress.pyscf.nldf_convolutions import aug_etb_for_cider, get_gamma_lists_from_mol
    from cidersim import zoo

    libcider = _Syms(libcider)

    r = np.random.default_rng(p["dseed"])
    mol = zoo.make_mol(p["mol"], "sto-3g")
    basis = aug_etb_for_cider(mol, lmax=p["lmax"], beta=p["beta"])
    mol2 = gto.M(atom=mol.atom, basis=basis, spin=mol.spin, charge=mol.charge, unit=mol.unit, verbose=0)
    atco = ATCBasis(*get_gamma_lists_from_mol(mol2))
    phase()
    out = {}
    nq = p["nq"]
    arr = np.ascontiguousarray(r.normal(size=(atco.nao, nq)))
    libcider.solve_atc_coefs_arr(atco.atco_c_ptr, _vp(arr), ctypes.c_int(nq))
    out["solve_arr"] = arr
    nspin, nk, nlm = p["nspin"], p["nk"], p["nlm"]
    x = np.ascontiguousarray(r.normal(size=(nspin, nk, nlm, nq)))
    y = np.zeros_like(x)
    k_g = np.ascontiguousarray(np.abs(r.normal(size=nk)) * 3)
    alphas = np.ascontiguousarray(0.3 * 1.8 ** np.arange(nq))
    norms = np.ascontiguousarray((np.pi / (2 * alphas)) ** -0.75)
    libcider.atc_reciprocal_convolution(_vp(x), _vp(y), _vp(k_g), _vp(alphas), _vp(norms), ctypes.c_int(nspin), ctypes.c_int(nk), ctypes.c_int(nlm), ctypes.c_int(nq))
    out["recip_conv"] = y
    return out


WORKLOADS.update(
    {
        "vxc_numint": (draw_vxc_params, wl_vxc_numint),
        "pbc_helpers": (draw_pbc_params, wl_pbc_helpers),
        "atc_misc": (draw_atc_params, wl_atc_misc),
    }
)


def draw_misc_params(rng):
    return {"n": _size(rng, [1, 2, 3, 7, 16, 33, 100], 150), "nctrl": rng.choice([1, 4, 9]), "nfeat": rng.choice([1, 3, 5]), "natm": rng.choice([1, 2, 3, 5, 9]), "ngrids": _size(rng, [1, 10, 57, 300], 400), "dseed": rng.below(10**6)}


def wl_misc_direct(p):
    """exported entry points with a parallel region but no Python caller in this version"""
    import ciderpress.dft.plans  # noqa: F401
    from ciderpress.lib import load_library

    lib = _Syms(load_library("libmcider"))
    r = np.random.default_rng(p["dseed"])
    out = {}
    n, nc, nf = p["n"], p["nctrl"], p["nfeat"]
    # evaluate_se_kernel_spin_v2: spin-interleaved layout (n, 2, nfeat)
    xin = np.ascontiguousarray(r.normal(size=(n, 2, nf)))
    xc = np.ascontiguousarray(r.normal(size=(nc, 2, nf)))
    al = r.normal(size=nc)
    ex = np.abs(r.normal(size=nf)) + 0.2
    res = np.zeros(n)
    dres = np.zeros((n, 2, nf))
    lib.evaluate_se_kernel_spin_v2(_vp(res), _vp(dres), _vp(xin), _vp(xc), _vp(al), _vp(ex), ctypes.c_int(n), ctypes.c_int(nc), ctypes.c_int(nf))
    out["spin_v2.res"] = res
    out["spin_v2.dres"] = dres
    # contract_grad_terms_old: grid points grouped by atom through ga_loc
    natm, ng = p["natm"], p["ngrids"]
    cuts = np.sort(r.integers(0, ng + 1, natm - 1)) if natm > 1 else np.zeros(0, dtype=int)
    ga_loc = np.ascontiguousarray(np.concatenate([[0], cuts, [ng]]).astype(np.int32))
    f_g = r.normal(size=ng)
    exc = np.zeros((natm, 3))
    for v in range(3):
        lib.contract_grad_terms_old(_vp(exc), _vp(f_g), ctypes.c_int(natm), ctypes.c_int(int(r.integers(0, natm))), ctypes.c_int(v), ctypes.c_int(ng), _vp(ga_loc))
    out["grad_old"] = exc
    # serial twin of the parallel gradient contraction, same inputs as the package passes
    atm_g = np.ascontiguousarray(r.integers(0, natm, ng).astype(np.int32))
    exc2 = np.zeros((natm, 3))
    exc3 = np.zeros((natm, 3))
    a = int(r.integers(0, natm))
    for v in range(3):
        lib.contract_grad_terms_parallel(_vp(exc2), _vp(f_g), ctypes.c_int(natm), ctypes.c_int(a), ctypes.c_int(v), ctypes.c_int(ng), _vp(atm_g))
        lib.contract_grad_terms_serial(_vp(exc3), _vp(f_g), ctypes.c_int(natm), ctypes.c_int(a), ctypes.c_int(v), ctypes.c_int(ng), _vp(atm_g))
    out["grad_parallel"] = exc2
    out["grad_serial"] = exc3
    return out


WORKLOADS["misc_direct"] = (draw_misc_params, wl_misc_direct)


# ---------------------------------------------------------------------------------
# "legacy" entry points: exported, contain a parallel region, and are reachable only from
# GPAW code, from the training-descriptor path (sdmx_slow) or not at all in this version
# (older twins of the *_new / *_separate routines).  The property speaks of every quantity
# computed by the C back end, so they are driven directly with the argument conventions
# of their C definitions.
# ---------------------------------------------------------------------------------
def draw_legacy_params(rng):
    return {
        "natm": rng.choice([1, 2, 3, 5, 9]),
        "ngrids": _size(rng, [1, 2, 7, 16, 33, 57, 130], 260),
        "nrad": rng.choice([2, 3, 5, 8, 17]),
        "lmax": rng.choice([1, 2, 3, 4]),  # the spherical-harmonic recursion needs lmax >= 1
        "nalpha": rng.choice([1, 2, 5]),
        "nj": rng.choice([1, 2, 3]),
        "mol": rng.choice(TINY_MOLS),
        "basis": rng.choice(["sto-3g", "6-31g", "ano@2s2p", "cc-pvdz"]),
        "sseed": rng.below(10**6),
        "kind": rng.choice(SDMX_KINDS),
        "dseed": rng.below(10**6),
        # the screening threshold of eval_conv_ao_fast (skip branch of SDMXeval_sph_iter)
        "cutoff": rng.choice([None, None, 1e-8, 1e-5, 1e-3]),
        "spread": rng.choice([1.5, 4.0, 8.0, 16.0]),
        "order": rng.choice(["random", "radial", "radial_rev", "blockwise"]),
        "itype": rng.choice(["gauss_diff", "gauss_diff", "gauss_r2"]),
    }


_NPARAMS = {}


def c_nparams(name):
    """number of parameters of the definition of C function `name` in the tree under test
    (None if no definition is found): the direct ctypes calls below follow the C signatures
    of the tree they were written for, and a refactor that changes a signature must make the
    call be skipped, not crash the reference run"""
    if name in _NPARAMS:
        return _NPARAMS[name]
    import glob
    import re

    from cidersim import build as _b

    res = None
    pat = re.compile(r"^[A-Za-z_][A-Za-z_0-9 \t\*]*?\b%s\s*\(" % re.escape(name), re.M)
    for f in sorted(glob.glob(os.path.join(_b.repo_root(), "ciderpress", "lib", "*", "*.c"))):
        try:
            txt = open(f, errors="replace").read()
        except OSError:
            continue
        for m in pat.finditer(txt):
            i = m.end()
            depth, n, seen = 1, 0, False
            while i < len(txt) and depth > 0:
                ch = txt[i]
                if ch == "(":
                    depth += 1
                elif ch == ")":
                    depth -= 1
                elif ch == "," and depth == 1:
                    n += 1
                elif not ch.isspace():
                    seen = True
                i += 1
            j = i
            while j < len(txt) and txt[j].isspace():
                j += 1
            if j < len(txt) and txt[j] == "{":  # a definition, not a prototype or a call
                arglist = txt[m.end() : i - 1].strip()
                res = 0 if arglist in ("", "void") else n + 1
                break
        if res is not None:
            break
    _NPARAMS[name] = res
    return res


class _Syms:
    """entry points by name; one that the tree under test no longer exports (a dead routine
    was removed or renamed), or defines with another number of parameters than the call
    passes, is skipped - the call does nothing and is recorded in `absent` - instead of
    failing the harness"""

    def __init__(self, lib):
        self._lib = lib
        self.absent = []

    def __getattr__(self, name):
        try:
            fn = getattr(self._lib, name)
        except AttributeError:
            self.absent.append(name)
            return lambda *a: None

        def call(*a):
            n = c_nparams(name)
            if n is not None and n != len(a):
                self.absent.append(name)
                SKIPPED_SIGNATURE.add(name)
                return None
            return fn(*a)

        return call


SKIPPED_SIGNATURE = set()


def wl_legacy_direct(p):
    import ciderpress.dft.plans  # noqa: F401
    from ciderpress.lib import load_library

    lib = load_library("libmcider")
    L = _Syms(lib)
    r = np.random.default_rng(p["dseed"])
    ci = ctypes.c_int
    cd = ctypes.c_double
    out = {}
    natm, ng, nrad, lmax, nalpha = p["natm"], p["ngrids"], p["nrad"], p["lmax"], p["nalpha"]
    nlm = (lmax + 1) ** 2
    aparam, dparam = 0.03, 0.35
    coords = np.ascontiguousarray(r.normal(size=(ng, 3)) * 1.5)
    atm_coords = np.ascontiguousarray(r.normal(size=(natm, 3)))
    # compute_spline_bas: (natm, ngrids, nlm, 4) table of Y_lm * dr^p
    auxo = np.zeros((natm, ng, nlm, 4))
    L.compute_spline_bas(_vp(auxo), _vp(coords), _vp(atm_coords), ci(natm), ci(ng), ci(nrad), ci(nlm), cd(aparam), cd(dparam))
    out["spline_bas"] = auxo
    # compute_num_spline_contribs with and without the on-site exclusion table
    cuts = np.sort(r.integers(0, ng + 1, natm - 1)) if natm > 1 else np.zeros(0, dtype=int)
    ar_loc = np.ascontiguousarray(np.concatenate([[0], cuts, [ng]]).astype(np.int32))
    num_ai = np.full((natm, nrad), -7, dtype=np.int32)
    L.compute_num_spline_contribs(_vp(num_ai), _vp(coords), _vp(atm_coords), cd(aparam), cd(dparam), ci(natm), ci(ng), ci(nrad), _vp(ar_loc))
    out["num_contribs.onsite_excluded"] = num_ai.astype(np.float64)
    num_ai2 = np.full((natm, nrad), -7, dtype=np.int32)
    L.compute_num_spline_contribs(_vp(num_ai2), _vp(coords), _vp(atm_coords), cd(aparam), cd(dparam), ci(natm), ci(ng), ci(nrad), None)
    out["num_contribs.all"] = num_ai2.astype(np.float64)
    # compute_num_spline_contribs_multi: per-atom locators (own nrad / aparam / dparam)
    nrads = np.ascontiguousarray(r.integers(2, nrad + 2, natm).astype(np.int32))
    aps = np.ascontiguousarray(0.02 + 0.03 * r.random(natm))
    dps = np.ascontiguousarray(0.25 + 0.2 * r.random(natm))
    if hasattr(lib, "initialize_spline_loc_list") and hasattr(lib, "compute_num_spline_contribs_multi"):
        llist = ctypes.c_void_p()
        L.initialize_spline_loc_list(ctypes.byref(llist), ci(natm), _vp(nrads), _vp(aps), _vp(dps))
        sloc_list = ctypes.cast(llist, ctypes.POINTER(ctypes.c_void_p))[0]

        class _SLoc(ctypes.Structure):
            _fields_ = [("loc_i", ctypes.POINTER(ctypes.c_int)), ("num_i", ctypes.POINTER(ctypes.c_int)), ("rel_ord_coords", ctypes.c_void_p), ("ind_ord_fwd", ctypes.c_void_p), ("ind_ord_bwd", ctypes.c_void_p), ("nrad", ctypes.c_int), ("aparam", ctypes.c_double), ("dparam", ctypes.c_double), ("ngrids", ctypes.c_int), ("buffer_size", ctypes.c_int)]

        slocs = ctypes.cast(sloc_list, ctypes.POINTER(_SLoc))
        iatom_g = np.ascontiguousarray(r.integers(0, natm, ng).astype(np.int32))
        L.compute_num_spline_contribs_multi(ctypes.c_void_p(sloc_list), _vp(coords), _vp(atm_coords), ci(ng), ci(natm), _vp(iatom_g))
        multi = []
        for a in range(natm):
            assert slocs[a].nrad == int(nrads[a])
            multi += [float(slocs[a].num_i[i]) for i in range(int(nrads[a]))]
        out["num_contribs.multi"] = np.asarray(multi)
    # compute_mol_convs_single: grid points grouped in radial blocks through loc_i
    nblk = nrad - 1
    cuts = np.sort(r.integers(0, ng + 1, nblk - 1)) if nblk > 1 else np.zeros(0, dtype=int)
    loc_i = np.ascontiguousarray(np.concatenate([[0], cuts, [ng]] if nblk >= 1 else [[0]]).astype(np.int32))
    loc_full = np.ascontiguousarray(np.concatenate([loc_i, [ng]]).astype(np.int32))
    ind_ord_fwd = np.ascontiguousarray(r.permutation(ng).astype(np.int32))
    maxg = int(np.max(np.diff(loc_full))) if loc_full.size > 1 else 1
    f_rqlp = np.ascontiguousarray(r.normal(size=(nrad, nalpha, nlm, 4)))
    f_gq = np.ascontiguousarray(r.normal(size=(ng, nalpha)))
    L.compute_mol_convs_single(_vp(f_gq), _vp(f_rqlp), _vp(loc_full), _vp(ind_ord_fwd), _vp(coords), _vp(np.ascontiguousarray(atm_coords[0])), ci(nalpha), ci(nrad), ci(ng), ci(nlm), ci(max(maxg, 1)), cd(aparam), cd(dparam))
    out["mol_convs_single"] = f_gq
    # add_lp1_term_onsite_{fwd,bwd}
    nf = 4 + int(r.integers(0, 3))
    cols = [int(x) for x in r.permutation(nf)[:4]]
    f1 = np.ascontiguousarray(r.normal(size=(ng, nf)))
    f2 = f1.copy()
    L.add_lp1_term_onsite_fwd(_vp(f1), _vp(coords), ci(natm), _vp(atm_coords), _vp(ar_loc), ci(cols[0]), ci(cols[1]), ci(cols[2]), ci(cols[3]), ci(nf))
    L.add_lp1_term_onsite_bwd(_vp(f2), _vp(coords), ci(natm), _vp(atm_coords), _vp(ar_loc), ci(cols[0]), ci(cols[1]), ci(cols[2]), ci(cols[3]), ci(nf))
    out["lp1_onsite_fwd"] = f1
    out["lp1_onsite_bwd"] = f2
    # contract_orb_to_rad_num / contract_rad_to_orb_num (numerical radial functions, GPAW)
    nj_l = [int(x) for x in r.integers(1, p["nj"] + 1, lmax + 1)]
    jloc_l = np.ascontiguousarray(np.concatenate([[0], np.cumsum(nj_l)]).astype(np.int32))
    uloc_l = np.ascontiguousarray(np.concatenate([[0], np.cumsum([nj_l[l] * (2 * l + 1) for l in range(lmax + 1)])]).astype(np.int32))
    nu = int(uloc_l[-1])
    funcs_jg = np.ascontiguousarray(r.normal(size=(int(jloc_l[-1]), nrad)))
    p_uq = np.ascontiguousarray(r.normal(size=(nu, nalpha)))
    theta = np.ascontiguousarray(r.normal(size=(nrad, nlm, nalpha)))
    th2 = theta.copy()
    L.contract_orb_to_rad_num(_vp(th2), _vp(p_uq), _vp(funcs_jg), _vp(jloc_l), _vp(uloc_l), ci(nrad), ci(nlm), ci(nalpha))
    out["orb_to_rad_num"] = th2
    p2 = p_uq.copy()
    L.contract_rad_to_orb_num(_vp(theta), _vp(p2), _vp(funcs_jg), _vp(jloc_l), _vp(uloc_l), ci(nrad), ci(nlm), ci(nalpha))
    out["rad_to_orb_num"] = p2
    # outputs of routines the tree does not export are untouched inputs: drop them
    drop = {"compute_spline_bas": ["spline_bas"], "compute_num_spline_contribs": ["num_contribs.onsite_excluded", "num_contribs.all"], "compute_num_spline_contribs_multi": ["num_contribs.multi"], "initialize_spline_loc_list": ["num_contribs.multi"], "compute_mol_convs_single": ["mol_convs_single"], "add_lp1_term_onsite_fwd": ["lp1_onsite_fwd"], "add_lp1_term_onsite_bwd": ["lp1_onsite_bwd"], "contract_orb_to_rad_num": ["orb_to_rad_num"], "contract_rad_to_orb_num": ["rad_to_orb_num"]}
    for name in L.absent:
        for k in drop.get(name, []):
            out.pop(k, None)
    return out


def wl_legacy_sdmx(p):
    """SDMXeval_loop (training-descriptor path, through the package's own eval_conv_ao_fast)
    and the SDMXcontract_ao_to_bas_grid pair (C signature; their Python caller never selects
    them)."""
    from ciderpress.pyscf import sdmx_slow
    from ciderpress.pyscf.sdmx import EXXSphGenerator, _get_nrf, _get_rf_loc, _get_ylm_atom_loc, libcider
    from cidersim import zoo

    libcider = _Syms(libcider)
    rng = Rng(derive("omp-legacy-sdmx", p["sseed"]))
    st = zoo.make_settings(p["kind"], rng, normalizer=False)
    mol = zoo.make_mol(p["mol"], p["basis"])
    r = np.random.default_rng(p["dseed"])
    ng = p["ngrids"]
    coords = r.normal(size=(ng, 3)) * (p.get("spread", 1.5) if p.get("cutoff") else 1.5)
    coords = _order_points(coords, p.get("order", "random") if p.get("cutoff") else "random", r)
    out = {}
    if p.get("itype", "gauss_diff") != "gauss_diff":
        st.sdmx_settings._integral_type = p["itype"]  # (how the package's own tests select it)
    gen = sdmx_slow.EXXSphGenerator.from_settings_and_mol(st.sdmx_settings, 1, mol)
    for deriv in ([0, 1] if gen.has_l1 else [0]):
        cao = sdmx_slow.eval_conv_ao_fast(gen.plan, mol, coords, deriv=deriv, cutoff=p.get("cutoff"))
        out["conv_ao_fast.deriv%d" % deriv] = np.array(cao)
    gen2 = EXXSphGenerator.from_settings_and_mol(st.sdmx_settings, 1, mol)
    fcoords = np.asfortranarray(coords)
    ylm = gen2._get_ylm(mol, fcoords, savebuf=False)
    ylm_atom_loc = _get_ylm_atom_loc(mol)
    rf_loc = _get_rf_loc(mol)
    nrf = _get_nrf(mol)
    nao = mol.nao_nr()
    ao_loc = mol.ao_loc_nr()
    ci = ctypes.c_int
    atomx = np.ascontiguousarray(mol.atom_coords(unit="Bohr")[:, 0])
    gridx = np.ascontiguousarray(coords[:, 0])
    c0 = np.ascontiguousarray(r.normal(size=(nao, ng)))
    b0 = np.full((nrf, ng), 7.5)
    common = [ci(ng), None, _vp(np.ascontiguousarray(ylm[0])), None, (ci * 2)(0, mol.nbas), _vp(ao_loc), _vp(ylm_atom_loc), _vp(mol._atm), ci(mol.natm), _vp(mol._bas), ci(mol.nbas), _vp(mol._env)]
    a = list(common)
    a[1], a[3] = _vp(b0), _vp(c0)
    if hasattr(libcider, "SDMXcontract_ao_to_bas_grid"):
        libcider.SDMXcontract_ao_to_bas_grid(*a, ci(int(rf_loc[-1])), _vp(rf_loc), _vp(gridx), _vp(atomx))
        out["ao_to_bas_grid"] = b0
    b1 = np.ascontiguousarray(r.normal(size=(nrf, ng)))
    c1 = np.ascontiguousarray(r.normal(size=(nao, ng)))
    a = list(common)
    a[1], a[3] = _vp(b1), _vp(c1)
    if hasattr(libcider, "SDMXcontract_ao_to_bas_grid_bwd"):
        libcider.SDMXcontract_ao_to_bas_grid_bwd(*a, _vp(gridx), _vp(atomx), ci(int(rf_loc[-1])), _vp(rf_loc))
        out["ao_to_bas_grid_bwd"] = c1
    return out


# ---------------------------------------------------------------------------------
# CiderPress call-backs that run inside PySCF's own parallel regions (libcgto's evaluation
# driver): the fractional-Laplacian contraction/evaluation routines of frac_lapl.c and the SDMX
# contraction routines used by the descriptor-generation ("slow") SDMX generator.  These cases
# run in a child process that has the simulated runtime pre-loaded (engine: via_child), so
# that PySCF's regions are simulated teams too.
# ---------------------------------------------------------------------------------
def draw_pyscf_region_params(rng):
    return {
        "mol": rng.choice(TINY_MOLS + ["OH", "O"]),
        "basis": rng.choice(["sto-3g", "6-31g", "def2-svp", "cc-pvdz", "def2-tzvp"]),
        "ngrids": _size(rng, [1, 3, 56, 57, 112, 200], 420),
        "slst": rng.choice([[0.5], [0.5, -0.5], [1.0, 0.25, -0.25], [-0.5]]),
        "n1": rng.choice([0, 0, 1]),
        "cutoff": rng.choice([None, None, 1e-10, 1e-6]),
        "spread": rng.choice([1.5, 4.0, 8.0]),
        "kind": rng.choice(SDMX_KINDS),
        "nspin": rng.choice([1, 2]),
        "sseed": rng.below(10**6),
        "dseed": rng.below(10**6),
    }


def wl_pyscf_flapl(p):
    from ciderpress.pyscf.frac_lapl import eval_flapl_gto, eval_kao
    from cidersim import zoo

    mol = zoo.make_mol(p["mol"], p["basis"])
    r = np.random.default_rng(p["dseed"])
    coords = r.normal(size=(p["ngrids"], 3)) * p["spread"]
    out = {}
    for d in (0, 1):
        out["flapl.deriv%d" % d] = np.array(eval_flapl_gto(list(p["slst"]), mol, coords, deriv=d, cutoff=p["cutoff"]))
    n1 = min(int(p["n1"]), len(p["slst"]))
    out["kao"] = np.array(eval_kao(list(p["slst"]), mol, coords, deriv=0, cutoff=p["cutoff"], n1=n1))
    return out


def wl_pyscf_slow_sdmx(p):
    from ciderpress.pyscf import sdmx_slow
    from cidersim import zoo

    rng = Rng(derive("omp-slow-sdmx", p["sseed"]))
    st = zoo.make_settings(p["kind"], rng, normalizer=False)
    mol = zoo.make_mol(p["mol"], p["basis"])
    r = np.random.default_rng(p["dseed"])
    coords = r.normal(size=(p["ngrids"], 3)) * 1.5
    gen = sdmx_slow.EXXSphGenerator.from_settings_and_mol(st.sdmx_settings, p["nspin"], mol)
    nao = mol.nao_nr()
    dms = []
    for _ in range(p["nspin"]):
        a = r.normal(size=(nao, nao))
        dms.append(a.dot(a.T) / nao)
    dm = np.ascontiguousarray(np.stack(dms)) if p["nspin"] > 1 else dms[0]
    feat = gen.get_features(dm, mol, coords)
    return {"feat": np.array(feat)}


WORKLOADS["pyscf_flapl"] = (draw_pyscf_region_params, wl_pyscf_flapl)
WORKLOADS["pyscf_slow_sdmx"] = (draw_pyscf_region_params, wl_pyscf_slow_sdmx)
WORKLOADS["legacy_direct"] = (draw_legacy_params, wl_legacy_direct)
WORKLOADS["legacy_sdmx"] = (draw_legacy_params, wl_legacy_sdmx)


# ---------------------------------------------------------------------------------
# FFT wrapper (libfft_wrapper) and the FFT drivers of pbc_tools.c.  FFTW itself is a
# naive-DFT stand-in in the verification builds (csrc/stub_fftw3.h): what runs for real are
# the wrapper's own parallel loops (write_fft_input / read_fft_output with every layout:
# complex / real-to-complex, in place / out of place, batch first / last) and run_ffts.
# ---------------------------------------------------------------------------------
def draw_fft_params(rng):
    nd = rng.choice([1, 2, 3, 3])
    return {
        "dims": [rng.choice([1, 2, 3, 4, 5, 6, 7, 8, 9]) for _ in range(nd)],
        "nt": rng.choice([1, 2, 3, 5, 8]),
        "fwd": bool(rng.chance(0.5)),
        "r2c": bool(rng.chance(0.5)),
        "inplace": bool(rng.chance(0.5)),
        "batch_first": bool(rng.chance(0.5)),
        "mesh1": [rng.choice([2, 3, 4, 5, 6]) for _ in range(3)],
        "mesh2": [rng.choice([2, 3, 4, 5, 6, 8]) for _ in range(3)],
        "nbuf": rng.choice([1, 2, 4]),
        "nfft": rng.choice([1, 2, 3, 5]),
        "dseed": rng.below(10**6),
    }


def wl_fft_wrapper(p):
    from ciderpress.lib.fft_plan import FFTWrapper
    from ciderpress.pyscf.pbc.util import FFTInterpolator

    r = np.random.default_rng(p["dseed"])
    out = {}
    w = FFTWrapper(list(p["dims"]), ntransform=p["nt"], r2c=p["r2c"], fwd=p["fwd"], inplace=p["inplace"], batch_first=p["batch_first"])
    shape = w.input_shape
    if p["r2c"] and p["fwd"]:
        x = r.normal(size=shape)
    else:
        x = r.normal(size=shape) + 1j * r.normal(size=shape)
    y = w.call(np.ascontiguousarray(x))
    out["fft"] = np.ascontiguousarray(y).view(np.float64) if np.iscomplexobj(y) else y
    # a second transform with the same plan (buffers are reused)
    y2 = w.call(np.ascontiguousarray(x[..., ::-1].copy() if x.ndim else x))
    out["fft_again"] = np.ascontiguousarray(y2).view(np.float64) if np.iscomplexobj(y2) else y2
    del w
    # run_ffts + map_between_fft_meshes through the package's interpolator
    for r2c in (False, True):
        fi = FFTInterpolator(p["mesh1"], p["mesh2"], r2c=r2c, num_fft_buffer=p["nbuf"])
        n1 = int(np.prod(p["mesh1"]))
        if r2c:
            f = np.ascontiguousarray(r.normal(size=(p["nfft"], n1)))
        else:
            f = np.ascontiguousarray(r.normal(size=(p["nfft"], n1)) + 1j * r.normal(size=(p["nfft"], n1)))
        g = fi.interpolate(f, fwd=True)
        h = fi.interpolate(np.ascontiguousarray(g), fwd=False)
        for name, a in (("interp_fwd_r2c%d" % r2c, g), ("interp_bwd_r2c%d" % r2c, h)):
            a = np.ascontiguousarray(a)
            out[name] = a.view(np.float64) if np.iscomplexobj(a) else a
    return out


WORKLOADS["fft_wrapper"] = (draw_fft_params, wl_fft_wrapper)
