"""Fresh-interpreter re-execution of a training history under another PYTHONHASHSEED."""
import json
import shutil
import sys
import tempfile


def main():
    hist = json.loads(sys.stdin.read())
    from cidersim import boot

    boot.activate("plain")
    from cidersim.engines import gphist

    wd = tempfile.mkdtemp(prefix="gphist_child_")
    try:
        viol, stats, dg, summary, state = gphist.exec_history(hist, wd, light=True)
    finally:
        shutil.rmtree(wd, ignore_errors=True)
    sys.stdout.write("\n" + json.dumps({"alphas": summary["alphas"], "liks": summary["liks"]}) + "\n")


if __name__ == "__main__":
    main()
