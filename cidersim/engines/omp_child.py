"""Child half of the C10 cases whose OpenMP regions belong to PySCF (libcgto / libdft) and run
CiderPress call-backs (fractional-Laplacian contraction, SDMX contraction through libcgto's
evaluation driver).  The process is started with LD_PRELOAD=<variant build>/libsimgomp.so, so
that PySCF's libraries bind their GOMP_* / omp_* references to the simulated runtime instead
of their bundled libgomp: their regions then run as simulated teams under the seeded
scheduler, and (in the simtrace variant) the instrumented CiderPress call-backs are pre-empted
at memory accesses inside those regions.  Reads one case on stdin, prints the pickled result."""
import base64
import json
import os
import pickle
import sys


def main():
    spec = json.loads(sys.stdin.read())
    os.environ["CIDERSIM_OMP_CHILD"] = "1"
    from cidersim.engines import omp_sched as E

    E.init_group(spec["group"])
    res = E.run_case(spec)
    sys.stdout.write("\nRESULT " + base64.b64encode(pickle.dumps(res)).decode() + "\n")


if __name__ == "__main__":
    main()
