"""E1 `simgomp` — C10: results independent of OpenMP team size and schedule.

The C back end of the working tree runs on the simulated OpenMP runtime (csrc/simgomp.c).
Each case = one workload instance (seeded inputs) + a list of seeded schedules; the
workload is executed once with a team of one (reference) and once per schedule, and every
output is compared element-wise with the reference."""
import json
import os
import sys
from collections import Counter

import numpy as np

from cidersim import boot
from cidersim.prng import Digest, Rng, derive

LEVEL = "exploration"
PROP = "C10"
GROUPS = ["sim", "simtrace"]
BUDGET = {"quick": 300, "thorough": 3000}
CASE_TIMEOUT = int(os.environ.get("VERIF_CASE_TIMEOUT", "420"))
TEAMS = [2, 3, 4, 5, 7, 8, 13, 16, 17, 32, 61]
TEAM_W = [6, 5, 6, 3, 4, 5, 2, 4, 2, 2, 1]
OTHER_TEAMS = [6, 9, 10, 11, 12, 14, 15, 18, 19, 20, 21, 23, 24, 28, 31, 48, 64]  # any size is legal
STRATS = ["random", "rtc_perm", "round_robin", "starve_one", "greedy_one", "reverse", "rtc_id"]
POISONS = [0xA5, 0x5A, 0xFF, 0x7F]
# window_pct choices for workloads that run few distinct region functions per call
FEW_REGION_WORKLOADS = {
    "evaluators": [100, 100, 50],
    "atc_misc": [100, 50],
    "misc_direct": [100, 50],
    "debug_numint": [50, 100, 20],
    "plan_coefs": [50, 20, 100],
    "sdmx": [50, 20, 20],
    "legacy_direct": [50, 20, 20],
    "legacy_sdmx": [50, 20, 20],
    "fft_wrapper": [100, 50, 50],
    "pbc_helpers": [50, 20, 20],
    "vxc_numint": [50, 20, 20],
}
RTOL = 1e-9
ATOL_REL = 1e-12
MAX_STEPS = 4_000_000_000

_sim = None
_variant = None


def assumptions():
    return [
        "sequential consistency at access granularity; hardware reordering and torn sub-word stores are not modelled",
        "BLAS/LAPACK (system OpenBLAS, 1 thread) and libm calls are atomic steps of the simulation",
        "PySCF's own OpenMP code runs single-threaded outside the simulator",
        "FFTW is absent: a naive-DFT stand-in (csrc/stub_fftw3.h) serves the three planner calls the FFT wrapper makes, so the wrapper's own parallel loops run for real while the transform itself is a stub; MPI paths do not run",
        "oracle tolerance |x-ref| <= 1e-9|ref| + 1e-12 max|ref| (property allows reassociation inside reductions)",
        "models/settings are synthetic with seeded parameters; molecules have 1-3 atoms",
    ]


# ---------------------------------------------------------------------------------
def init_group(g):
    global _sim, _variant
    boot.activate(g)
    from cidersim import simctl

    _sim = simctl.Sim()
    _variant = g
    # default IEEE floating-point environment in this thread and for the simulated worker pool
    # (some third-party library loaded above was built with fast-math and switched
    # flush-to-zero on for the interpreter's main thread)
    _sim.lib.simgomp_reset_fpenv()
    # prove that the CiderPress libraries are bound to the simulator (not a real libgomp)
    from cidersim.workloads import omp_workloads as W

    p = W.draw_eval_params(Rng(1))
    _sim.begin(1, nthreads=2, strategy="random")
    W.wl_evaluators(p)
    st = _sim.end()
    if st["regions"] == 0:
        raise RuntimeError("libmcider is not bound to the simulated OpenMP runtime")
    _sim.reset_regions()


def warm(args):
    # parent: build both variants, import the heavy third-party modules once (shared pages)
    from cidersim import build

    build.build("sim")
    build.build("simtrace")
    import numpy  # noqa: F401
    import pyscf  # noqa: F401
    import pyscf.dft  # noqa: F401
    import scipy.linalg  # noqa: F401
    import sklearn.gaussian_process  # noqa: F401


def draw_sched(rng, variant, small=False):
    s = {
        "nthreads": rng.weighted(list(zip(TEAMS, TEAM_W))) if rng.chance(0.75) else rng.choice(OTHER_TEAMS),
        "strategy": rng.choice(STRATS),
        "chunk_shuffle": int(rng.chance(0.5)),
        "poison": rng.choice(POISONS),
        "sseed": rng.below(2**62),
        "preempt_mean": 0,
        "window_pct": 100,
    }
    if rng.chance(0.15) and s["nthreads"] > 2:
        # the runtime hands out a smaller team than omp_get_max_threads() announces
        # (OMP_THREAD_LIMIT below OMP_NUM_THREADS, OMP_DYNAMIC=true): legal for any OpenMP
        # runtime, and the result must still be the one-thread result
        s["team_limit"] = rng.randint(2, s["nthreads"] - 1)
    if rng.chance(0.15):
        # the thread-count setting changes between two library calls on the same objects
        # (omp_set_num_threads / threadpoolctl / pyscf.lib.num_threads in a long-lived
        # interpreter): objects built under one team size are used under another
        s["team_phase"] = [rng.choice([1, 2, 3, 4, 5, 8, 16, 17, 32]) for _ in range(rng.randint(1, 3))]
    if rng.chance(0.1):
        # nested parallelism switched on by the environment (OMP_MAX_ACTIVE_LEVELS >= 2,
        # OMP_NUM_THREADS=a,b): a region encountered inside a region gets a team of its own
        s["nested"] = rng.choice([2, 2, 3, 4])
    if variant == "simtrace":
        s["preempt_mean"] = rng.choice([3, 10, 30, 100, 1000])
        # windows are keyed by region function: dense pre-emption of a few functions per run
        s["window_pct"] = rng.choice([5, 10, 20, 20, 50]) if s["preempt_mean"] <= 100 else 100
        if s["preempt_mean"] <= 30:
            s["nthreads"] = rng.choice([2, 3, 4, 5, 8])
    return s


def plan(tier, seed, args):
    from cidersim.workloads import omp_workloads as W

    rng = Rng(derive(seed, PROP, "plan"))
    cases = []
    # (workload, instances in sim group, schedules per instance, instances in simtrace, schedules)
    if tier == "quick":
        table = {
            "nldf_gen": (24, 4, 24, 8),
            "nldf_grad": (16, 4, 24, 10),
            "evaluators": (16, 5, 40, 8),
            "sdmx": (16, 5, 20, 8),
            "debug_numint": (8, 5, 16, 8),
            "plan_coefs": (16, 5, 24, 8),
            "e2e": (8, 2, 3, 2),
            "vxc_numint": (6, 5, 10, 6),
            "pbc_helpers": (8, 5, 12, 6),
            "atc_misc": (8, 5, 12, 6),
            "misc_direct": (6, 5, 16, 6),
            "legacy_direct": (8, 5, 16, 6),
            "legacy_sdmx": (6, 5, 10, 6),
            "fft_wrapper": (10, 5, 16, 6),
        }
    else:
        table = {
            "nldf_gen": (500, 6, 400, 8),
            "nldf_grad": (300, 6, 300, 8),
            "evaluators": (300, 8, 300, 8),
            "sdmx": (400, 6, 300, 8),
            "debug_numint": (150, 8, 150, 8),
            "plan_coefs": (400, 8, 300, 8),
            "e2e": (200, 3, 60, 3),
            "vxc_numint": (100, 8, 100, 8),
            "pbc_helpers": (200, 8, 200, 8),
            "atc_misc": (300, 8, 300, 8),
            "misc_direct": (100, 8, 100, 8),
            "legacy_direct": (200, 8, 200, 8),
            "legacy_sdmx": (150, 8, 150, 8),
            "fft_wrapper": (200, 8, 200, 8),
        }

    if args.cases is not None:
        table = {k: (args.cases, v[1], max(1, args.cases // 2), v[3]) for k, v in table.items()}
    for wl, (n_sim, k_sim, n_tr, k_tr) in table.items():
        draw = W.WORKLOADS[wl][0]
        for variant, n, k in (("sim", n_sim, k_sim), ("simtrace", n_tr, k_tr)):
            for i in range(n):
                r = Rng(derive(seed, PROP, wl, variant, i))
                wp = draw(r)
                if variant == "simtrace" and wl == "e2e":
                    wp["mol"] = r.choice(["H2", "HeH+"])
                scheds = [draw_sched(r, variant) for _ in range(k)]
                if variant == "simtrace" and wl in FEW_REGION_WORKLOADS:
                    # these workloads execute only a handful of region functions: a window of
                    # 5-20 % of all functions would mostly select none of them
                    for s_ in scheds:
                        if s_["preempt_mean"] <= 100:
                            s_["window_pct"] = r.choice(FEW_REGION_WORKLOADS[wl])
                if variant == "simtrace" and wl == "e2e":
                    for s in scheds:
                        s["window_pct"] = min(s["window_pct"], 10)
                if variant == "simtrace" and wl != "e2e":
                    scheds.append({"nthreads": r.choice([2, 3, 4, 5]), "strategy": "round_robin", "chunk_shuffle": 1, "poison": 0xA5, "sseed": r.below(2**62), "preempt_mean": 0, "window_pct": 100, "detect": 1})
                c = {"workload": wl, "wparams": wp, "scheds": scheds, "group": variant}
                if wl != "e2e" and i % 4 == 0:
                    c["verify_replay"] = True
                if wl != "e2e" and i % 3 == 1:
                    # call history x schedule: the same entry points were used earlier in this
                    # process on another problem size with a (mostly larger) team, as a long-lived
                    # interpreter does after omp_set_num_threads / between molecules; C-level
                    # state that survives a call (static scratch, memoised tables) shows here
                    r2 = Rng(derive(seed, PROP, wl, variant, i, "pre"))
                    pre = []
                    for _ in range(r2.randint(1, 2)):
                        ps = draw_sched(r2, "sim")
                        ps["nthreads"] = r2.choice([8, 16, 32, 61, ps["nthreads"]])
                        ps.pop("team_limit", None)
                        pre.append({"wparams": draw(r2), "sched": ps})
                    c["pre_runs"] = pre
                cases.append(c)
    # screened SDMX evaluation (caller's cutoff) on generally contracted shells, points ordered
    # by radius so that whole blocks are far from an atom: the skip path of the radial loop
    if args.cases is None:
        for i in range(12 if tier == "quick" else 160):
            for variant in ("sim", "simtrace") if i % 2 == 0 else ("sim",):
                r = Rng(derive(seed, PROP, "sdmx", "screened", variant, i))
                wp = W.draw_sdmx_params(r)
                wp.update({"basis": r.choice(["ano@3s2p", "ano@2s2p", "ano@2s1p", "cc-pvdz", "sto-3g", "6-31g"]), "cutoff": r.choice([1e-8, 1e-5, 1e-3]), "spread": r.choice([4.0, 8.0, 16.0]), "order": r.choice(["radial", "radial_rev", "blockwise"]), "ngrids": r.randint(120, 520)})
                cases.append({"workload": "sdmx", "wparams": wp, "scheds": [draw_sched(r, variant) for _ in range(6)], "group": variant})
    # CiderPress call-backs inside PySCF's own regions (pre-loaded child, see omp_child.py)
    if args.cases is None:
        for wl, n_sim, n_tr in (("pyscf_flapl", 4, 8), ("pyscf_slow_sdmx", 3, 5)) if tier == "quick" else (("pyscf_flapl", 60, 120), ("pyscf_slow_sdmx", 40, 80)):
            for variant, n in (("sim", n_sim), ("simtrace", n_tr)):
                for i in range(n):
                    r = Rng(derive(seed, PROP, wl, variant, i))
                    wp = W.WORKLOADS[wl][0](r)
                    scheds = []
                    for _ in range(5):
                        s_ = draw_sched(r, variant)
                        for k_ in ("team_phase", "nested", "team_limit"):
                            s_.pop(k_, None)
                        if variant == "simtrace":
                            s_["window_pct"] = 100  # the call-backs are not region functions: no window
                            s_["nthreads"] = r.choice([2, 3, 4, 5])
                            s_["preempt_mean"] = r.choice([3, 10, 30, 100])
                        scheds.append(s_)
                    cases.append({"workload": wl, "wparams": wp, "scheds": scheds, "group": variant, "via_child": True})
    # team-size sweeps: routines that partition their work by hand from the team size give a
    # result that is a function of (problem size, team size) alone; every team size from 2 to
    # 24 on a handful of seeded sizes costs little in the call-level build and removes the
    # luck from "this size with that team"
    sweep = {"sdmx": 10, "misc_direct": 6, "legacy_sdmx": 4, "debug_numint": 3, "fft_wrapper": 3} if tier == "quick" else {"sdmx": 150, "misc_direct": 60, "legacy_sdmx": 40, "debug_numint": 40, "fft_wrapper": 40, "plan_coefs": 40, "evaluators": 40}
    if args.cases is None:
        for wl, n_sw in sweep.items():
            draw = W.WORKLOADS[wl][0]
            for i in range(n_sw):
                r = Rng(derive(seed, PROP, wl, "sweep", i))
                wp = draw(r)
                if wl == "sdmx":
                    wp["mol"] = r.choice(["He", "H2", "LiH"])
                    wp["basis"] = r.choice(["sto-3g", "6-31g"])
                    wp["nset"] = 1
                scheds = []
                for t in range(2, 25):
                    scheds.append({"nthreads": t, "strategy": r.choice(["rtc_id", "reverse", "rtc_perm"]), "chunk_shuffle": int(r.chance(0.3)), "poison": r.choice(POISONS), "sseed": r.below(2**62), "preempt_mean": 0, "window_pct": 100})
                cases.append({"workload": wl, "wparams": wp, "scheds": scheds, "group": "sim", "sweep": True})
    # long cases first
    order = {"e2e": 0, "nldf_gen": 1, "nldf_grad": 2}
    cases.sort(key=lambda c: order.get(c["workload"], 5))
    return cases


# ---------------------------------------------------------------------------------
def compare(ref, out):
    """-> list of (name, class, detail), stats"""
    bad = []
    nbit = 0
    ntot = 0
    maxrel = 0.0
    for name in sorted(ref):
        a = np.asarray(ref[name])
        if name not in out:
            bad.append((name, "missing", ""))
            continue
        b = np.asarray(out[name])
        if a.shape != b.shape:
            bad.append((name, "shape", "%s vs %s" % (a.shape, b.shape)))
            continue
        if a.size == 0:
            continue
        a = a.astype(np.float64, copy=False).ravel()
        b = b.astype(np.float64, copy=False).ravel()
        ntot += a.size
        same = a.view(np.uint64) == b.view(np.uint64)
        nbit += int(same.sum())
        if same.all():
            continue
        na, nb = np.isnan(a), np.isnan(b)
        ia, ib = np.isinf(a), np.isinf(b)
        if not (np.array_equal(na, nb) and np.array_equal(ia & (a > 0), ib & (b > 0)) and np.array_equal(ia & (a < 0), ib & (b < 0))):
            k = int(np.argmax((na != nb) | (ia != ib)))
            bad.append((name, "nonfinite-pattern", "first at %d: ref=%r got=%r" % (k, a[k], b[k])))
            continue
        fin = ~(na | ia)
        if not fin.any():
            continue
        # a subnormal that became exactly zero (or the reverse): not reassociation (sums of
        # subnormals are exact) but a different floating-point environment in some thread
        tiny = np.finfo(np.float64).tiny
        sub_a = fin & (a != 0) & (np.abs(a) < tiny) & (b == 0)
        sub_b = fin & (b != 0) & (np.abs(b) < tiny) & (a == 0)
        if (sub_a | sub_b).any():
            k = int(np.argmax(sub_a | sub_b))
            bad.append((name, "subnormal-flushed", "%d elements; first at %d: ref=%r got=%r" % (int((sub_a | sub_b).sum()), k, a[k], b[k])))
            continue
        af, bf = a[fin], b[fin]
        scale = float(np.max(np.abs(af)))
        tol = RTOL * np.abs(af) + ATOL_REL * scale
        d = np.abs(af - bf)
        if scale > 0:
            maxrel = max(maxrel, float(d.max() / scale))
        over = d > tol
        if over.any():
            k = int(np.argmax(d - tol))
            bad.append((name, "mismatch", "%d/%d elements; worst ref=%.17g got=%.17g (|d|=%.3g, scale %.3g)" % (int(over.sum()), af.size, af[k], bf[k], d[k], scale)))
    return bad, {"elements": ntot, "bitwise_equal": nbit, "max_rel_diff": maxrel}


class _LibProxy:
    """what `from pyscf import lib` is for the modules of the package under test: everything
    is PySCF's, except that the number of threads the environment announces / the caller sets
    is the simulated runtime's (Python code of the package that sizes buffers or picks a
    routine from the thread count must see the team the C code will get).  PySCF's own
    modules keep the real function (their C code runs on one real thread)."""

    def __init__(self, real):
        self.__dict__["_real"] = real

    def __getattr__(self, k):
        return getattr(self._real, k)

    def __setattr__(self, k, v):
        setattr(self._real, k, v)

    def num_threads(self, n=None):
        if n is not None:
            _sim.lib.omp_set_num_threads(int(n))
            return int(n)
        return int(_sim.lib.omp_get_max_threads())


def _route_thread_count_queries():
    import pyscf.lib

    n = 0
    for name, mod in list(sys.modules.items()):
        if mod is None or not (name == "ciderpress" or name.startswith("ciderpress.")):
            continue
        d = getattr(mod, "__dict__", {})
        for k_, v_ in list(d.items()):  # (under whatever name the module imported it)
            if v_ is pyscf.lib or v_ is pyscf.lib.misc:
                d[k_] = _LibProxy(v_)
                n += 1
            elif v_ is pyscf.lib.num_threads:
                d[k_] = _LibProxy(pyscf.lib).num_threads
                n += 1
    return n


def run_workload(wl, wp, sched, record=False, replay=None):
    from cidersim.workloads import omp_workloads as W

    fn = W.WORKLOADS[wl][1]
    _route_thread_count_queries()
    _sim.begin(
        sched["sseed"],
        nthreads=sched["nthreads"],
        strategy=sched["strategy"],
        chunk_shuffle=sched["chunk_shuffle"],
        preempt_mean=sched.get("preempt_mean", 0),
        window_pct=sched.get("window_pct", 100),
        poison=sched["poison"],
        window_fn=sched.get("window_fn", 0),
        team_limit=sched.get("team_limit", 0),
        detect=bool(sched.get("detect")),
        nested=int(sched.get("nested") or 0),
        record=record,
        max_steps=MAX_STEPS,
        replay=replay,
    )
    exc = None
    out = None
    tp = list(sched.get("team_phase") or [])
    if tp:
        state = {"i": 0}

        def hook():
            _sim.lib.omp_set_num_threads(int(tp[state["i"] % len(tp)]))
            state["i"] += 1

        W.PHASE_HOOK = hook
    try:
        out = fn(wp)
    except Exception as e:  # an exception under a schedule but not in the reference is a difference
        exc = "%s: %s" % (type(e).__name__, str(e)[:200])
    finally:
        W.PHASE_HOOK = None
    tr = _sim.trace() if record else None
    cf = _sim.conflicts() if sched.get("detect") else None
    st = _sim.end()
    if cf is not None:
        st["conflicts"] = cf
    return out, st, exc, tr


REF_SCHED = {"nthreads": 1, "strategy": "rtc_id", "chunk_shuffle": 0, "poison": 0xA5, "sseed": 1, "preempt_mean": 0, "window_pct": 100}


def minimise_trace_case(spec):
    """Runs inside one worker: shrink a failing schedule trace while the same violation
    key persists.  Replay tolerates edited traces (when the trace runs out, or names a
    thread that cannot run, the lowest runnable thread runs to completion), so every
    candidate is executable; a candidate is kept iff the key is still observed."""
    import time

    wl, wp, sched, key = spec["workload"], spec["wparams"], spec["scheds"][0], spec["key"]
    name = key.split(":")[2]
    cls = key.split(":")[3]
    ref, st0, exc0, _ = run_workload(wl, wp, dict(REF_SCHED))
    t0 = time.time()
    attempts = [0]

    def fails(segs, chunks):
        attempts[0] += 1
        out, st, exc, _ = run_workload(wl, wp, sched, replay={"segs": segs, "chunks": chunks})
        if st["error"] or exc is not None:
            return cls in ("deadlock", "heap-overrun", "exception") and (st["error"] or "exception").replace("_", "-") .startswith(cls[:4])
        bad, _ = compare(ref, out)
        return any((n == name or name == "*") and c == cls for n, c, _ in bad)

    segs = [list(x) for x in spec["trace"]["segs"]]
    chunks = list(spec["trace"].get("chunks", []))
    if not fails(segs, chunks):
        return {"ok": False, "reason": "recorded trace does not reproduce", "attempts": attempts[0]}
    n0 = len(segs)
    budget_s = spec.get("budget_s", 150)
    # 0. sparse trace: keep only the regions that were pre-empted (regions without recorded
    #    segments run in thread-id order on replay), then drop regions one block at a time
    def regions_of(sg):
        regs, cur = [], None
        for x in sg:
            if x[0] < 0:
                cur = [x]
                regs.append(cur)
            elif cur is not None:
                cur.append(x)
        return regs

    regs = regions_of(segs)
    cand = [x for r in regs if r[0][0] == -2 for x in r]
    if cand and len(cand) < len(segs) and fails(cand, chunks):
        segs = cand
    regs = regions_of(segs)
    b = max(1, len(regs) // 2)
    while b >= 1 and len(regs) > 1 and time.time() - t0 < budget_s * 0.5 and attempts[0] < 200:
        i = 0
        changed = False
        while i < len(regs) and len(regs) > 1 and time.time() - t0 < budget_s * 0.5 and attempts[0] < 200:
            cand_regs = regs[:i] + regs[i + b :]
            if cand_regs and fails([x for r in cand_regs for x in r], chunks):
                regs = cand_regs
                changed = True
            else:
                i += b
        if b == 1 and not changed:
            break
        b = b // 2 if b > 1 else (1 if changed else 0)
    segs = [x for r in regs for x in r]
    # 1. shortest failing prefix
    lo, hi = 0, len(segs)
    while hi - lo > 1 and time.time() - t0 < budget_s:
        mid = (lo + hi) // 2
        if fails(segs[:mid], chunks):
            hi = mid
        else:
            lo = mid
    segs = segs[:hi]
    # 2. merge blocks of segments (region markers stay)
    b = max(1, len(segs) // 2)
    while b >= 1 and time.time() - t0 < budget_s and attempts[0] < 400:
        i = 0
        changed = False
        while i < len(segs) and time.time() - t0 < budget_s and attempts[0] < 400:
            blk = [k for k in range(i, min(len(segs), i + b)) if segs[k][0] >= 0]
            if len(blk) < 2 or blk[-1] - blk[0] + 1 != len(blk):
                i += b
                continue
            # merge the block: every thread runs its steps of the block in one piece (this
            # drops pre-emptions but keeps each thread's position for the rest of the trace)
            tot, order = {}, []
            for k in blk:
                t_, n_ = segs[k]
                if t_ not in tot:
                    tot[t_] = 0
                    order.append(t_)
                tot[t_] += n_
            merged = [[t_, tot[t_]] for t_ in order]
            if len(merged) >= len(blk):
                i += b
                continue
            cand = segs[: blk[0]] + merged + segs[blk[-1] + 1 :]
            if fails(cand, chunks):
                segs = cand
                changed = True
            else:
                i += b
        if b == 1 and not changed:
            break
        b = b // 2 if b > 1 else (1 if changed else 0)
    if chunks and fails(segs, []):
        chunks = []
    return {"ok": True, "segs": segs, "chunks": chunks, "from_segments": n0, "attempts": attempts[0], "wall_s": round(time.time() - t0, 1)}


_worker_log = []


def _run_in_preloaded_child(spec):
    """cases whose parallel regions are PySCF's: a fresh interpreter with the simulated runtime
    pre-loaded (see omp_child.py)"""
    import base64
    import pickle
    import subprocess

    from cidersim import build

    d = build.build(spec["group"])
    env = dict(os.environ)
    env["LD_PRELOAD"] = os.path.join(d, "libsimgomp.so")
    env["PYTHONPATH"] = os.path.dirname(os.path.dirname(os.path.dirname(os.path.abspath(__file__))))
    env["PYTHONHASHSEED"] = "0"
    env.pop("OMP_NUM_THREADS", None)
    try:
        p = subprocess.run([sys.executable, "-m", "cidersim.engines.omp_child"], input=json.dumps(spec).encode(), capture_output=True, env=env, timeout=CASE_TIMEOUT)
    except subprocess.TimeoutExpired:
        p = None
    rp = {"property": PROP, "engine": "simgomp", "case": {k: spec[k] for k in ("workload", "wparams", "scheds", "group", "via_child") if k in spec}}
    if p is None or p.returncode != 0:
        if not spec["scheds"]:
            return {"harness_error": "reference-only child failed for %s: %s" % (spec["workload"], (p.stderr.decode()[-300:] if p is not None else "timeout"))}
        # did the one-thread reference alone survive?  (as on_crash does for in-process cases)
        r0 = _run_in_preloaded_child(dict(spec, scheds=[]))
        if "harness_error" in r0:
            return {"harness_error": "pre-loaded child failed also without schedules for %s: %s" % (spec["workload"], r0["harness_error"][-300:])}
        key = "schedule:%s:*:crash" % spec["workload"]
        rp["violation"] = {"key": key}
        return {"digest": "", "nontrivial": True, "violations": [{"key": key, "detail": "child process died or hung (rc %s) under one of scheds=%s while the one-thread run completes: %s" % (p.returncode if p is not None else "timeout", json.dumps(spec["scheds"])[:300], (p.stderr.decode()[-200:] if p is not None else "")), "replay": rp}], "stats": {}, "sample": None}
    line = [l for l in p.stdout.decode().splitlines() if l.startswith("RESULT ")]
    if not line:
        return {"harness_error": "pre-loaded child printed no result for %s: %s" % (spec["workload"], p.stderr.decode()[-300:])}
    res = pickle.loads(base64.b64decode(line[-1][7:]))
    if isinstance(res, dict) and "stats" in res:
        res["stats"]["cases_run_with_pyscf_regions_simulated"] = 1
    return res


def run_case(spec):
    if spec.get("_mintrace"):
        return minimise_trace_case(spec)
    if spec.get("via_child") and not os.environ.get("CIDERSIM_OMP_CHILD"):
        return _run_in_preloaded_child(spec)
    res = _run_case(spec)
    if not spec.get("replay_trace") and len(_worker_log) < 64:
        _worker_log.append({k: spec[k] for k in ("workload", "wparams", "scheds", "group", "pre_runs") if k in spec})
    return res


def _run_case(spec):
    wl, wp = spec["workload"], spec["wparams"]
    _sim.reset_regions()
    dg = Digest()
    stats = Counter()
    viol = []
    ref_sched = dict(REF_SCHED)
    for pr in spec.get("pre_runs", []):
        # earlier use of the same entry points in this process (outputs are not judged here:
        # every instance is judged in its own case); a failure of such a run is not an error
        try:
            _o, st_p, _e, _t = run_workload(wl, pr["wparams"], pr["sched"])
            if st_p["error"]:
                return {"harness_error": "pre-run failed in the simulator: %s (%s)" % (st_p["error"], st_p["error_msg"])} if st_p["error"] not in ("deadlock", "heap_overrun") else {"digest": dg.hex(), "nontrivial": False, "violations": [], "stats": dict(stats), "sample": None, "_abort": True}
            stats["earlier_calls_in_process"] += 1
        except Exception:
            pass
    ref, st0, exc0, _ = run_workload(wl, wp, ref_sched)
    if exc0 is not None or st0["error"]:
        # the workload itself is broken for these parameters: harness problem, not a verdict
        return {"harness_error": "reference run failed for %s %s: %s %s" % (wl, json.dumps(wp), exc0, st0["error"])}
    for k in sorted(ref):
        dg.add_array(np.asarray(ref[k]))
    stats["ref_runs"] += 1
    multi = 0
    bit = [0, 0]
    maxrel = 0.0
    sample = None
    queue = list(spec["scheds"])
    directed_for = set()
    while queue:
        sched = queue.pop(0)
        replay = spec.get("replay_trace")
        want_rec = bool(spec.get("record")) or bool(spec.get("verify_replay"))
        out, st, exc, tr = run_workload(wl, wp, sched, record=want_rec, replay=replay)
        stats["sched_runs"] += 1
        # (only for runs that agree with the reference: a run that is a violation anyway may
        # return arrays with elements nobody wrote, i.e. heap garbage that differs run to run)
        if spec.get("verify_replay") and tr is not None and not tr["overflow"] and len(tr["segs"]) <= 300000 and exc is None and not st["error"] and not st.get("nested_multi") and not compare(ref, out)[0]:
            # replay fidelity: following the recorded schedule trace (not the PRNG) must
            # reproduce the execution exactly
            out_r, st_r, exc_r, _ = run_workload(wl, wp, sched, record=False, replay=tr)
            same = exc_r is None and st_r["replay_diverged"] == 0 and st_r["steps"] == st["steps"] and st_r["switches"] == st["switches"]
            if same:
                for kk in out:
                    if np.asarray(out[kk]).tobytes() != np.asarray(out_r[kk]).tobytes():
                        same = False
            if not same:
                return {"harness_error": "schedule-trace replay did not reproduce the recorded execution for %s sched=%s (diverged=%s steps %s/%s)" % (wl, json.dumps(sched), st_r.get("replay_diverged"), st_r.get("steps"), st.get("steps"))}
            stats["trace_replays_verified"] += 1
            stats["trace_segments_replayed"] += len(tr["segs"])
        if spec.get("sweep"):
            stats["team_size_sweep_runs"] += 1
        stats["strategy_" + sched["strategy"]] += 1
        stats["team_%d" % sched["nthreads"]] += 1
        for f in ("regions", "regions_multi", "steps", "accesses", "switches", "preemptions", "barriers", "chunks", "chunk_shuffles", "criticals", "crit_waits", "singles", "mallocs", "poisoned_bytes", "atomics", "starved_regions"):
            stats[f] += st[f]
        if sched.get("preempt_mean", 0) > 0:
            stats["runs_with_access_preemption"] += 1
        if sched["chunk_shuffle"]:
            stats["runs_with_chunk_shuffle"] += 1
        if sched.get("team_limit"):
            stats["runs_with_team_below_max_threads"] += 1
        if sched.get("team_phase"):
            stats["runs_with_thread_count_changed_between_calls"] += 1
        if sched.get("nested"):
            stats["runs_with_nested_parallelism_enabled"] += 1
        stats["nested_regions_run_with_a_team"] += st.get("nested_multi", 0)
        dg.add("sched", "%x" % st["trace_hash"])
        multi += st["regions_multi"]
        if sched.get("detect") and not spec.get("replay_trace"):
            # race-directed search: every region function in which two threads touched one
            # word within one synchronisation epoch gets dense access pre-emption confined to
            # it; only a result that then differs from the one-thread result is a violation
            stats["detector_runs"] += 1
            cfs = sorted(st.get("conflicts") or [], key=lambda c: (-c["ww"], -c["count"], c["off"]))
            stats["detector_conflicting_functions"] += len(cfs)
            r3 = Rng(derive("c10-directed", sched["sseed"]))
            for c in cfs[:3]:
                if c["off"] in directed_for or not c["off"]:
                    continue
                directed_for.add(c["off"])
                for _ in range(3):
                    queue.append({"nthreads": sched["nthreads"], "strategy": r3.choice(["random", "random", "round_robin"]), "chunk_shuffle": sched["chunk_shuffle"], "poison": sched["poison"], "sseed": r3.below(2**62), "preempt_mean": r3.choice([2, 3, 5]), "window_pct": 100, "window_fn": c["off"], "directed": 1})
        if sched.get("directed"):
            stats["directed_runs"] += 1
        rp = {"property": PROP, "engine": "simgomp", "case": {"workload": wl, "wparams": wp, "scheds": [sched], "group": spec["group"]}}
        if spec.get("pre_runs"):
            rp["case"]["pre_runs"] = spec["pre_runs"]
        if spec.get("via_child"):
            rp["case"]["via_child"] = True
        if _worker_log:
            # C-level state that survives calls would make this run depend on what the worker
            # executed before; the replay falls back to re-running these first
            rp["earlier_cases_in_worker"] = list(_worker_log)
        if tr is not None and not tr["overflow"] and len(tr["segs"]) <= 300000 and not st.get("nested_multi"):
            rp["trace"] = tr  # (runs with nested teams replay from the seed, not from a trace)
        if st["error"]:
            cls = {"deadlock": "deadlock", "heap_overrun": "heap-overrun"}.get(st["error"])
            if cls is None:
                return {"harness_error": "simulator error %s (%s) on %s" % (st["error"], st["error_msg"], json.dumps(rp["case"])[:400])}
            viol.append({"key": "schedule:%s:*:%s" % (wl, cls), "detail": st["error_msg"] + " sched=" + json.dumps(sched), "replay": rp})
            # the simulator state is unusable after an abandoned region
            return {"digest": dg.hex(), "nontrivial": True, "violations": viol, "stats": dict(stats), "sample": sample, "_abort": True}
        if exc is not None:
            viol.append({"key": "schedule:%s:*:exception" % wl, "detail": exc + " sched=" + json.dumps(sched), "replay": rp})
            continue
        bad, cst = compare(ref, out)
        bit[0] += cst["bitwise_equal"]
        bit[1] += cst["elements"]
        maxrel = max(maxrel, cst["max_rel_diff"])
        for k in sorted(out):
            dg.add_array(np.asarray(out[k]))
        for name, cls, detail in bad:
            viol.append({"key": "schedule:%s:%s:%s" % (wl, name, cls), "detail": detail + " sched=" + json.dumps(sched), "replay": rp})
        if sample is None:
            sample = {"workload": wl, "wparams": wp, "sched": sched, "sim_stats": {k: st[k] for k in ("regions", "regions_multi", "steps", "switches", "preemptions", "barriers", "chunks")}}
    stats["elements_compared"] = bit[1]
    stats["elements_bitwise_equal"] = bit[0]
    return {
        "digest": dg.hex(),
        "nontrivial": multi > 0,
        "violations": viol,
        "stats": dict(stats),
        "sample": sample,
        "regions": _sim.regions(),
        "max_rel_diff": maxrel,
    }


def replay(rp):
    g = rp["case"]["group"]
    init_group(g)
    spec = dict(rp["case"])
    if "trace" in rp and rp.get("use_trace", True):
        spec["replay_trace"] = rp["trace"]
    res = run_case(spec)
    want = rp.get("violation", {}).get("key")
    if rp.get("earlier_cases_in_worker") and not any(v["key"] == want for v in res.get("violations", [])):
        # not reproduced from a fresh process: repeat with the calls the worker had made before
        for c in rp["earlier_cases_in_worker"]:
            _run_case(dict(c))
        res = run_case(spec)
    return res


def on_crash(spec, status):
    """worker died (or hung until the per-case timeout) inside a case: a violation iff the
    one-thread reference of the same workload instance completes"""
    from cidersim.driver import run_pool

    import signal
    import time

    ref_only = dict(spec, scheds=[])
    t0 = time.time()
    r = run_pool([ref_only], run_case, nproc=1, case_timeout=CASE_TIMEOUT, init=lambda: init_group(spec["group"]))[0]
    t_ref = time.time() - t0
    if r is None or "crashed" in r or "harness_error" in r:
        return None
    if os.WIFSIGNALED(status) and os.WTERMSIG(status) == signal.SIGALRM and t_ref > CASE_TIMEOUT / 20.0:
        # two watchdog kills, but the reference alone is slow as well: a loaded machine or a
        # heavy instance, not evidence of a hang under a schedule
        return None
    key = "schedule:%s:*:crash" % spec["workload"]
    rp = {"property": PROP, "engine": "simgomp", "case": spec, "violation": {"key": key}}
    return {"key": key, "detail": "process died or hung (wait status %s) under one of scheds=%s while the one-thread run completes" % (status, json.dumps(spec["scheds"])[:300]), "replay": rp}


def minimise(v):
    """shrink the schedule description while the same violation key persists"""
    from cidersim.driver import run_pool

    case = v["replay"]["case"]
    key = v["key"]
    g = case["group"]
    sched = dict(case["scheds"][0])

    def fails(s, record=False):
        c = dict(case, scheds=[s], record=record)
        r = run_pool([c], run_case, nproc=1, case_timeout=CASE_TIMEOUT, init=lambda: init_group(g))[0]
        if r is None or "harness_error" in r:
            return None
        if "crashed" in r:
            return r if key.endswith(":crash") else None
        return r if any(x["key"] == key for x in r.get("violations", [])) else None

    tried = 0
    for field, cands in (
        ("team_limit", [0]),
        ("team_phase", [0]),
        ("nested", [0]),
        ("nthreads", [2, 3, 4]),
        ("chunk_shuffle", [0]),
        ("preempt_mean", [0, 10000, 1000, 100]),
        ("strategy", ["rtc_id", "reverse", "round_robin"]),
        ("poison", [0]),
    ):
        for c in cands:
            if (sched.get(field) or 0) == c or tried > 14:
                continue
            if field == "nthreads" and c >= sched["nthreads"]:
                continue
            s2 = dict(sched)
            s2[field] = c
            tried += 1
            if fails(s2):
                sched = s2
                break
    # which region function must be pre-empted?  (restricting the window to one function
    # names the culprit and keeps the schedule trace small)
    if sched.get("preempt_mean", 0) > 0:
        r0 = fails(sched)
        regs = sorted((r0 or {}).get("regions", {}).items())
        for name, info in regs:
            if tried > 40 or not info.get("off") or info.get("runs_multi", 0) == 0:
                continue
            s2 = dict(sched, window_fn=info["off"], window_fn_name=name)
            tried += 1
            if fails(s2):
                sched = s2
                break
    r = fails(sched, record=True)
    out = dict(v)
    rp = dict(v["replay"])
    rp["case"] = dict(case, scheds=[sched])
    rp["minimised_from"] = case["scheds"][0]
    if r is not None and "crashed" not in r:
        for x in r["violations"]:
            if x["key"] == key:
                out["detail"] = x["detail"]
                if "trace" in x["replay"]:
                    rp["trace"] = x["replay"]["trace"]
                break
    if "trace" in rp and not key.endswith(":crash") and len(rp["trace"]["segs"]) <= 300000:
        m = run_pool(
            [dict(case, scheds=[sched], _mintrace=True, key=key, trace=rp["trace"], budget_s=150)],
            run_case,
            nproc=1,
            case_timeout=CASE_TIMEOUT,
            init=lambda: init_group(g),
        )[0]
        if m and m.get("ok"):
            rp["trace"] = {"segs": m["segs"], "chunks": m["chunks"]}
            rp["trace_minimised"] = {"from_segments": m["from_segments"], "to_segments": len(m["segs"]), "attempts": m["attempts"], "wall_s": m["wall_s"]}
        elif m:
            rp["trace_minimised"] = m
    rp["violation"] = {"key": key, "detail": out.get("detail")}
    out["replay"] = rp
    return out


def coverage(done, tier):
    tot = Counter()
    regs = {}
    samples = []
    wl_runs = Counter()
    cfg_classes = Counter()
    maxrel = 0.0
    hashes = set()
    for spec, res in done:
        for k, v in res.get("stats", {}).items():
            tot[k] += v
        wl_runs[spec["workload"] + "/" + spec["group"]] += len(spec["scheds"])
        wp_ = spec.get("wparams", {})
        for lab, hit in (
            ("screening_threshold_passed", wp_.get("cutoff") is not None),
            ("generally_contracted_basis", str(wp_.get("basis", "")).startswith(("ano", "cc-"))),
            ("points_far_first_or_interleaved", wp_.get("order") in ("radial_rev", "blockwise") and wp_.get("cutoff") is not None),
            ("production_size_evaluator", spec["workload"] == "evaluators" and wp_.get("n", 0) >= 4400),
            ("smooth_cutoff_with_low_top_of_range", bool(wp_.get("smooth")) and wp_.get("amax", 3e4) < 3e4),
            ("samples_ordered_by_density", wp_.get("rho_order") in ("by_density", "by_density_rev")),
            ("gauss_r2_integrals", wp_.get("itype") == "gauss_r2"),
            ("explicit_exponent_ladder", bool(wp_.get("ladder"))),
            ("full_sdmx_settings", wp_.get("kind") == "sdmxfull"),
            ("unsorted_cider_grids", wp_.get("sort_grids") is False),
            ("caller_stated_exponent_formula", bool(wp_.get("gen_formula"))),
            ("dense_spline_table", bool(wp_.get("spline_mul")) and wp_.get("plan_type") == "spline"),
        ):
            if hit:
                cfg_classes[lab] += 1
        for name, r in res.get("regions", {}).items():
            e = regs.setdefault(name, {"runs": 0, "runs_multi": 0, "max_team": 0})
            r = {k: r.get(k, 0) for k in ("runs", "runs_multi", "max_team")}
            e["runs"] += r["runs"]
            e["runs_multi"] += r["runs_multi"]
            e["max_team"] = max(e["max_team"], r["max_team"])
        maxrel = max(maxrel, res.get("max_rel_diff", 0.0))
        if res.get("sample") and len(samples) < 5:
            samples.append(res["sample"])
        hashes.add(res.get("digest"))
    all_regions = []
    try:
        from cidersim import build

        p = os.path.join(build.build("sim"), "omp_fns.txt")
        all_regions = sorted(set("%s:%s" % (l.split()[0], l.split()[2]) for l in open(p)))
    except Exception:
        pass
    never = [r for r in all_regions if regs.get(r, {}).get("runs_multi", 0) == 0]
    why = {}
    for r in never:
        if "fft" in r.split(":")[1].split(".")[0] or "libfft_wrapper" in r:
            why[r] = "needs FFTW (absent in the sandbox)"
        else:
            why[r] = "not reached by this run's workloads"
    teams = {k[5:]: v for k, v in tot.items() if k.startswith("team_")}
    strats = {k[9:]: v for k, v in tot.items() if k.startswith("strategy_")}
    return {
        "evaluations": int(tot["sched_runs"] + tot["ref_runs"]),
        "rule": "a case = one seeded workload instance (inputs, sizes, settings) run once with a team of 1 and once per seeded schedule "
        "(team size, strategy, chunk order, allocator poison, access pre-emption); evaluations = simulated executions; a case is non-trivial if "
        "at least one parallel region ran with a team > 1; distinct = distinct event-log digests (schedule-trace hashes + output digests)",
        "samples": samples,
        "simulated_runs": int(tot["sched_runs"]),
        "simulated_steps": {
            "scheduling_steps": int(tot["steps"]),
            "instrumented_accesses": int(tot["accesses"]),
            "context_switches": int(tot["switches"]),
            "access_preemptions": int(tot["preemptions"]),
            "barriers": int(tot["barriers"]),
            "dynamic_chunks": int(tot["chunks"]),
            "critical_sections": int(tot["criticals"]),
            "parallel_regions": int(tot["regions"]),
            "parallel_regions_team_gt_1": int(tot["regions_multi"]),
        },
        "fault_kinds_fired": {
            "out_of_order_chunk_grants": int(tot["chunk_shuffles"]),
            "access_level_preemptions": int(tot["preemptions"]),
            "critical_section_contention_waits": int(tot["crit_waits"]),
            "starve_one_regions": int(tot["starved_regions"]),
            "poisoned_malloc_bytes": int(tot["poisoned_bytes"]),
            "runs_with_access_preemption": int(tot["runs_with_access_preemption"]),
            "runs_with_chunk_shuffle": int(tot["runs_with_chunk_shuffle"]),
            "runs_with_team_below_max_threads": int(tot["runs_with_team_below_max_threads"]),
            "runs_with_thread_count_changed_between_calls": int(tot["runs_with_thread_count_changed_between_calls"]),
            "runs_with_nested_parallelism_enabled": int(tot["runs_with_nested_parallelism_enabled"]),
            "nested_regions_run_with_a_team": int(tot["nested_regions_run_with_a_team"]),
            "team_size_sweep_runs_every_team_2_to_24": int(tot["team_size_sweep_runs"]),
            "race_detector_runs": int(tot["detector_runs"]),
            "race_detector_conflicting_region_functions": int(tot["detector_conflicting_functions"]),
            "race_directed_runs": int(tot["directed_runs"]),
            "earlier_calls_with_other_team_and_size_in_same_process": int(tot["earlier_calls_in_process"]),
        },
        "team_size_histogram": teams,
        "strategy_histogram": strats,
        "schedule_runs_by_workload": dict(wl_runs),
        "cases_by_input_configuration_class": dict(cfg_classes),
        "trace_replays_verified": int(tot["trace_replays_verified"]),
        "trace_segments_replayed": int(tot["trace_segments_replayed"]),
        "distinct_interleavings": len(hashes),
        "distinct_interleavings_measure": "distinct 64-bit hashes of (schedule trace incl. team sizes, segment lengths, chunk grants) + outputs per case",
        "regions_total": len(all_regions),
        "regions_run_multithreaded": len(all_regions) - len(never),
        "regions_never_multi": never,
        "regions_never_multi_reason": why,
        "region_runs": regs,
        "bitwise_equal_fraction": (tot["elements_bitwise_equal"] / tot["elements_compared"]) if tot["elements_compared"] else None,
        "max_rel_diff_observed": maxrel,
        "simulated_time": "omp_get_wtime is served from the step counter; no code under test reads it",
        "real_components": ["libmcider/libnumint C sources of the working tree", "OpenBLAS/LAPACK", "libm", "ciderpress Python wrappers", "PySCF (e2e workloads)", "PySCF libcgto evaluation driver (its regions run as simulated teams in the pyscf_* workloads)"],
        "cases_with_pyscf_regions_simulated": int(tot["cases_run_with_pyscf_regions_simulated"]),
        "stub_components": ["OpenMP runtime (simulated: csrc/simgomp.c)", "malloc/free of the C back end (poisoning wrapper)", "FFTW (absent; naive separable DFT stand-in, validated against numpy.fft by the repository's own tests_fft_plan.py)"],
    }
