"""E2 `histsim` — C09: results independent of batching, blocking, call history, aliasing.

Simulates a client that keeps calculator / generator / model objects alive and calls them
in arbitrary seeded sequences, with every knob that is supposed not to matter under the
simulator's control (batch grouping, block size, repetition, interleaving of spins,
molecules, grids and models, argument aliasing, allocator content).  The reference model
is the answer of *fresh objects* on one plain call.  All code is real."""
import ctypes
import hashlib
import json
import os
import sys
from collections import Counter

import numpy as np

from cidersim import boot
from cidersim.prng import Digest, Rng, derive

LEVEL = "exploration"
PROP = "C09"
BUDGET = {"quick": 300, "thorough": 2400}
CASE_TIMEOUT = 1200
RTOL = 1e-10
PERTURBS = [0xFF, 0x7F, 0xA5, 0x01]

NI_MODELS = [
    # (settings kind, evaluator, mode, version)
    ("sl_npa", "rbf", "SEP", 1),
    ("sl_npa", "antisym", "SEP", 1),
    ("sl_nst", "spline", "NPOL", 1),
    ("sl_ns", "kernel", "SEP", 1),
    ("sl_np", "rbf+linear", "NPOL", 1),
    ("sl_nst", "rbf", "POL", 1),
    ("sl_npa", "rbf", "NPOL", 2),
    ("nldf_j", "rbf", "SEP", 1),
    ("nldf_j", "kernel", "NPOL", 2),
    ("nldf_j_all", "rbf", "SEP", 1),
    ("nldf_j_gga", "rbf", "NPOL", 1),
    ("nldf_i", "rbf", "SEP", 1),
    ("nldf_i_l1", "rbf", "SEP", 1),
    ("nldf_i_l1", "rbf", "POL", 1),
    ("nldf_ij", "spline+rbf", "SEP", 1),
    ("nldf_k", "rbf", "NPOL", 1),
    ("sdmx", "rbf", "SEP", 1),
    ("sdmxg", "rbf", "NPOL", 1),
    ("sdmx1", "kernel", "SEP", 1),
    ("sdmxg1", "rbf", "SEP", 2),
    ("nldf_j_sdmx", "rbf", "SEP", 1),
    ("sdmxfull", "rbf", "SEP", 1),
    ("sdmxfull", "kernel", "NPOL", 1),
]
NI_MOLS = ["H2", "HeH+", "LiH", "H2O", "OH", "O", "H"]
REORDERED = {"LiH": "HLi", "OH": "HO", "HeH+": "HHe+", "H2O": "H2O_r"}
MAXMEMS = [2000, 2000, 1.0, 0.2, 0.05, 0.01, 0.0005]


def assumptions():
    return [
        "models are synthetic (seeded parameters, same classes/code paths as shipped functionals)",
        "molecules have <= 3 atoms, sto-3g/6-31g bases, level-0 or small explicit atomic grids",
        "fresh-object reference: new calculator, generators and grids objects, nset=1, default max_memory, one call",
        "tolerance 1e-10*max(1,|ref|): block summation order and BLAS alignment legitimately move results by ~1e-16..1e-13",
        "allocator content is perturbed with glibc mallopt(M_PERTURB) (also fills NumPy array storage obtained from malloc)",
        "a call interrupted by an injected failure (MemoryError at a seeded Python line inside the package) is un-acknowledged: nothing is demanded of it, but every later call on the same objects is compared with fresh objects",
    ]


# ---------------------------------------------------------------------------------
_libc = None


def set_perturb(byte):
    """glibc's own seam: every subsequent malloc is filled with ~byte, every free with byte"""
    global _libc
    if _libc is None:
        _libc = ctypes.CDLL("libc.so.6")
    _libc.mallopt(ctypes.c_int(-6), ctypes.c_int(int(byte) & 0xFF))


from cidersim.faultat import CallInterrupted, FaultAt, InjectedFault, draw_fault, for_op, remember  # noqa: E402,F401


def scribble(hist, stats, *arrays):
    """after a call has returned the caller owns its argument arrays again and may reuse
    them as workspace: overwrite them, so that an object that kept a view instead of a copy
    shows it in its next answer"""
    if not hist.get("scribble"):
        return
    for a in arrays:
        if isinstance(a, np.ndarray) and a.flags.writeable and a.dtype.kind == "f":
            a[...] = np.nan
            stats["caller_buffers_overwritten_after_call"] += 1


def near_dup(hist, pool, stats, eps=1e-7, seed=0):
    """the last entry of an input pool becomes a look-alike of the first (equal to ~1e-7
    relative): consecutive SCF iterations or finite-difference displacements produce such
    inputs, and a cache keyed on approximate equality would confuse them"""
    if hist.get("near_dup") and len(pool) > 1:
        r = np.random.default_rng(12345 + seed)
        pool[-1] = pool[0] * (1.0 + eps * r.normal(size=pool[0].shape))
        stats["lookalike_inputs"] += 1
    return pool


def adigest(*arrays):
    h = hashlib.sha256()
    for a in arrays:
        a = np.asarray(a)
        h.update(str(a.shape).encode())
        h.update(str(a.dtype).encode())
        h.update(np.ascontiguousarray(a).tobytes())
    return h.hexdigest()


def close(a, b, rtol=RTOL):
    a = np.asarray(a, dtype=float)
    b = np.asarray(b, dtype=float)
    if a.shape != b.shape:
        return False, "shape %s vs %s" % (a.shape, b.shape)
    if a.size == 0:
        return True, ""
    fa, fb = np.isfinite(a), np.isfinite(b)
    if not np.array_equal(fa, fb):
        return False, "non-finite pattern differs (%d vs %d non-finite)" % ((~fa).sum(), (~fb).sum())
    if not fa.all():
        if not (np.array_equal(np.isnan(a), np.isnan(b)) and np.array_equal(a[np.isinf(a)], b[np.isinf(b)])):
            return False, "non-finite values differ"
        a, b = a[fa], b[fa]
        if a.size == 0:
            return True, ""
    sc = max(1.0, float(np.abs(a).max()))
    d = float(np.abs(a - b).max())
    if d > rtol * sc:
        return False, "max|diff|=%.3g (scale %.3g)" % (d, sc)
    return True, ""


# ---------------------------------------------------------------------------------
# universe construction (deterministic in the descriptors)
# ---------------------------------------------------------------------------------
class Universe:
    def __init__(self, desc):
        self.desc = desc
        self._models = {}
        self._mols = {}
        self._dms = {}

    def model(self, i):
        if i not in self._models:
            self._models[i] = self.fresh_model(i)
        return self._models[i]

    def fresh_model(self, i):
        from cidersim import zoo

        d = self.desc["models"][i]
        rng = Rng(derive("c09-model", d["seed"], d["settings"], d["ev"], d["mode"], d["version"]))
        st = zoo.make_settings(d["settings"], rng)
        m = zoo.make_model(st, rng, evaluator=d["ev"], mode=d["mode"], version=d["version"])
        if d.get("retrained"):
            _retrain(m, float(d["retrained"]))
        return m

    def mol(self, k, fresh=False):
        from cidersim import zoo

        d = self.desc["mols"][k]
        if fresh or k not in self._mols:
            m = zoo.make_mol(d["name"], d["basis"], shift=d.get("shift"))
            if d.get("stretch"):
                # the same atoms at another geometry (a step of a scan): not a rigid motion
                m = m.set_geom_(m.atom_coords(unit="Bohr") * float(d["stretch"]), unit="Bohr", inplace=False)
                m.verbose = 0
            if d.get("abs_coords") is not None:
                m = m.set_geom_(np.asarray(d["abs_coords"]), unit="Bohr", inplace=False)
                m.verbose = 0
            if fresh:
                return m
            self._mols[k] = m
        return self._mols[k]

    def dm(self, k, nspin, j):
        from cidersim import zoo

        key = (k, nspin, j)
        if key not in self._dms:
            if j == 1 and self.desc.get("fd_dm"):
                # a finite-difference displaced matrix (what a derivative check of the energy
                # hands over): symmetric, not positive semi-definite, so tau < tau_W and
                # slightly negative densities occur at some grid points
                # (the base is a matrix of occupied orbitals - rank = number of occupied orbitals,
                # as every SCF density matrix -, so the small displacement makes it indefinite;
                # the seeded matrices above are full-rank positive definite)
                from pyscf import scf

                base = np.asarray(scf.UHF(self.mol(k)).get_init_guess(key="minao" if self.mol(k).nelectron < 2 else "huckel"))
                if nspin == 1:
                    base = base[0] + base[1]
                r = np.random.default_rng(4242 + int(self.desc["mols"][k]["dseed"]) % 10**6)
                nz = r.normal(size=base.shape[-2:])
                amp = np.abs(base).max(axis=(-2, -1), keepdims=True)  # per spin channel: an empty channel stays empty
                self._dms[key] = np.ascontiguousarray(base + (0.002 if int(self.desc["mols"][k]["dseed"]) % 2 else 0.0005) * amp * (nz + nz.T))
            elif j == 2 and self.desc.get("near_dup"):
                # a density matrix that differs from matrix 0 by ~3e-8 relative (symmetric)
                base = self.dm(k, nspin, 0)
                r = np.random.default_rng(777 + int(self.desc["mols"][k]["dseed"]) % 10**6)
                nz = r.normal(size=base.shape[-2:])
                self._dms[key] = base * (1.0 + 3e-8 * (nz + nz.T))
            else:
                self._dms[key] = zoo.make_dm(self.mol(k), Rng(derive("c09-dm", self.desc["mols"][k]["dseed"], nspin, j)), nspin)
        return self._dms[key]


def _retrain(model, factor):
    """the same model after another training run: every array keeps its shape (a saved file
    keeps its size), the weights differ"""
    for k in model.kernels:
        for fe in k.fevals:
            for name in ("alpha", "_alpha", "consts", "const"):
                a = getattr(fe, name, None)
                if isinstance(a, np.ndarray) and a.dtype.kind == "f":
                    setattr(fe, name, np.ascontiguousarray(a * factor))
                elif isinstance(a, float):
                    setattr(fe, name, a * factor)
            cs = getattr(fe, "coeff_sets", None)
            if isinstance(cs, list):
                fe.coeff_sets = [np.ascontiguousarray(np.asarray(c) * factor) for c in cs]


def make_inits(model, mdesc):
    """the initializer objects a caller hands to make_cider_calc / set_mlxc for `model`
    (none when the description says the caller relies on the package's defaults)"""
    from ciderpress.pyscf.nldf_convolutions import PySCFNLDFInitializer

    nldf_init = None
    st = model.settings
    kw = None
    if st.has_nldf and not mdesc.get("no_init"):
        kw = dict(aparam=0.04, dparam=0.06, alpha_max=float(mdesc.get("alpha_max", 3000.0)), aux_lambd=1.9)
        if mdesc.get("lmax"):
            kw["lmax"] = int(mdesc["lmax"])  # a calculator that asks for a smaller angular cut-off on (possibly shared) grids
        if mdesc.get("zero_d"):
            # numeric options handed over as 0-d arrays (what np.asarray / a config loader give):
            # they are the caller's objects and the initializer is used for several builds
            kw = {k: np.array(v) for k, v in kw.items()}
            kw["alpha_min"] = np.array(st.nldf_settings.theta_params[0] / 256)
        nldf_init = PySCFNLDFInitializer(
            st.nldf_settings,
            plan_type=mdesc.get("plan_type", "gaussian"),
            interpolator_type=mdesc.get("interp", "onsite_direct"),
            nrad=80,
            **kw,
        )
    sdmx_init = None
    if st.has_sdmx and mdesc.get("sdmx_kw") and not mdesc.get("no_init"):
        # an explicit initializer for the SDMX generator (low-memory mode, own exponent ladder)
        from ciderpress.pyscf.sdmx import PySCFSDMXInitializer

        sdmx_init = PySCFSDMXInitializer(st.sdmx_settings, **mdesc["sdmx_kw"])
    return nldf_init, sdmx_init, kw


def make_ks(model, mol, uks, gcfg, mdesc):
    from pyscf import dft

    from ciderpress.pyscf.dft import make_cider_calc
    from ciderpress.pyscf.nldf_convolutions import PySCFNLDFInitializer

    ks = dft.UKS(mol) if uks else dft.RKS(mol)
    ks.verbose = 0
    ks.grids.level = gcfg.get("level", 0)
    if gcfg.get("atom_grid"):
        ks.grids.atom_grid = tuple(gcfg["atom_grid"])
    if gcfg.get("atom_grid_dict"):
        ks.grids.atom_grid = {k_: tuple(v_) for k_, v_ in gcfg["atom_grid_dict"].items()}
    if not gcfg.get("prune", True):
        ks.grids.prune = None
    nldf_init, sdmx_init, kw = make_inits(model, mdesc)
    if mdesc.get("via_file"):
        # the functional is handed over as a file name (what make_cider_calc documents): the
        # user's one model file, overwritten by each retrained model, its time stamp preserved
        # by the copy tool
        import joblib

        d_ = os.path.join(os.environ.get("VERIF_SCRATCH", "/tmp"), "cidersim_c09_models_%d" % os.getpid())
        if not os.path.isdir(d_):
            import atexit
            import shutil

            os.makedirs(d_, exist_ok=True)
            atexit.register(shutil.rmtree, d_, True)
        path_ = os.path.join(d_, "model.joblib")
        joblib.dump(model, path_)
        os.utime(path_, (1.7e9, 1.7e9))
        model = path_
    form = mdesc.get("xc_form", "pbe_pair")
    if form == "none":
        # the documented default: CIDER in place of exact exchange, nothing else
        ks = make_cider_calc(ks, model, xmix=1.0, nldf_init=nldf_init, sdmx_init=sdmx_init, rhocut=mdesc.get("rhocut"))
    elif form == "xc":
        ks = make_cider_calc(ks, model, xmix=mdesc.get("xmix", 0.5), xc="0.25*GGA_X_PBE + GGA_C_PBE", nldf_init=nldf_init, sdmx_init=sdmx_init, rhocut=mdesc.get("rhocut"))
    else:
        ks = make_cider_calc(ks, model, xmix=mdesc.get("xmix", 0.5), xkernel="GGA_X_PBE", ckernel="GGA_C_PBE", nldf_init=nldf_init, sdmx_init=sdmx_init, rhocut=mdesc.get("rhocut"))
    ks.grids.verbose = 0
    ks._verif_kw = (kw, {k: float(v) for k, v in kw.items()}) if kw else None  # (lmax is an int: float() is exact)
    return ks


def check_option_objects(ks):
    """caller-owned option objects of the initializer must still hold what the caller put in"""
    if getattr(ks, "_verif_kw", None):
        kw, orig = ks._verif_kw
        for k, v in kw.items():
            if float(v) != orig[k]:
                return "%s: %r -> %r" % (k, orig[k], float(v))
    return None


def build_grids(ks, mol):
    g = ks.grids
    g.mol = mol
    g.build(with_non0tab=False)
    return g


# ---------------------------------------------------------------------------------
# calculator-level histories
# ---------------------------------------------------------------------------------
_SHARED_REFS = {}


def g_size_probe(hist, gi):
    return (hist["grids"][gi].get("atom_grid") or [0, 0])[0] >= 200


def gen_ni_history(seed):
    rng = Rng(derive("c09-ni", seed))
    nm = rng.weighted([(1, 3), (2, 2)])
    models = []
    for _ in range(nm):
        s, ev, mode, ver = rng.choice(NI_MODELS)
        models.append({"settings": s, "ev": ev, "mode": mode, "version": ver, "seed": rng.below(10**6), "plan_type": rng.choice(["gaussian", "spline"]), "interp": rng.choice(["onsite_direct", "onsite_spline"]), "xmix": rng.choice([1.0, 0.5, 0.25]), "zero_d": bool(rng.chance(0.3)), "alpha_max": rng.choice([300.0, 1000.0, 3000.0, 3000.0]), "lmax": rng.choice([None, None, None, 6, 8]), "rhocut": rng.choice([None, None, None, 1e-6, 1e-4, 1e-3]),
                       "xc_form": rng.choice(["pbe_pair", "pbe_pair", "pbe_pair", "none", "xc"]),
                       "via_file": bool(rng.chance(0.2)),
                       "sdmx_kw": rng.choice([None, None, None, {"lowmem": True}, {"alpha0": 0.02, "lambd": 2.0, "nalpha": 8}, {"lowmem": True, "lambd": 1.6}])})
        if rng.chance(0.4):
            # the second calculator of this model (two KS objects in one script, on the same
            # grids) is configured with other optional settings than the first
            models[-1]["calc1"] = {"lmax": rng.choice([None, 6, 8]), "alpha_max": rng.choice([300.0, 1000.0, 3000.0])}
    if nm == 2 and rng.chance(0.3):
        # a retrained copy of the first model: same recipe and shapes, other numbers
        models[1] = dict(models[0], retrained=rng.choice([1.1, 0.9, 1.5]), calc1=None)
        models[1].pop("calc1")
    nmol = rng.randint(1, 3)
    mols = []
    for _ in range(nmol):
        if mols and rng.chance(0.35):
            # equal-content copy or displaced copy of an earlier molecule
            d = dict(mols[rng.below(len(mols))])
            c_ = rng.below(3)
            if c_ == 0:
                d["shift"] = [rng.uniform(-0.3, 0.3) for _ in range(3)]
            elif c_ == 1 and d["name"] in REORDERED:
                d["name"] = REORDERED[d["name"]]  # the same molecule with its atoms listed in another order
            mols.append(d)
        else:
            mols.append({"name": rng.choice(NI_MOLS), "basis": rng.choice(["sto-3g", "sto-3g", "6-31g"]), "dseed": rng.below(10**6)})
    gcfgs = [{"level": 0, "prune": True}, {"level": 0, "prune": False}, {"atom_grid": [14, 50]}, {"atom_grid": [20, 86]}, {"level": 1, "prune": True}]
    grids = [rng.choice(gcfgs) for _ in range(rng.randint(1, 2))]
    big = bool(rng.chance(0.08))
    if big:
        # a grid above the integrators' block cap (1200 * BLKSIZE = 67200 points): several
        # blocks even at the default memory budget, one atom so that it stays cheap
        mols = [{"name": rng.choice(["He", "He", "Li", "O"]), "basis": "sto-3g", "dseed": rng.below(10**6)}]
        nmol = 1
        grids = [{"atom_grid": [200, 434], "prune": False}]
        if rng.chance(0.5):
            # several blocks at the *default* budget exist only here: half of these histories
            # use a model whose nonlocal and SDMX parts both loop over the blocks
            s_, ev_, mode_, ver_ = [m_ for m_ in NI_MODELS if m_[0] == "nldf_j_sdmx"][0]
            models[0] = dict(models[0], settings=s_, ev=ev_, mode=mode_, version=ver_)
            models[0].pop("calc1", None)
    ops = []
    if not big and rng.chance(0.12):
        # a data-set loop over look-alike molecules: the same atoms listed in another order
        # (same natm / nbas, other per-atom layout), every object dropped and collected between
        # the items, so that new objects tend to get the addresses of the old ones
        nm_ = rng.choice(["LiH", "OH", "H2O"])  # per-atom angular-momentum layouts differ between the two orders
        bas_ = rng.choice(["sto-3g", "6-31g"])
        ds_ = rng.below(10**6)
        mols = [{"name": nm_, "basis": bas_, "dseed": ds_}, {"name": REORDERED[nm_], "basis": bas_, "dseed": ds_ + 1}]
        nmol = 2
        tmpl = {"op": "call", "model": rng.below(nm), "grid": 0, "uks": bool(rng.chance(0.4)), "dms": [0], "max_memory": 2000, "calc": 0, "container": "single", "alias": None}
        for it in range(rng.randint(3, 6)):
            ops.append(dict(tmpl, mol=it % 2, dms=[rng.below(2)]))
            ops.append({"op": "drop_all"})
        return {"kind": "ni", "models": models, "mols": mols, "grids": grids[:1], "ops": ops, "perturb": rng.choice(PERTURBS)}
    if not big and rng.chance(0.1):
        # a geometry scan: one calculator, one grids object that is re-targeted to the next
        # geometry and rebuilt in place before every call
        # (a rigid shift of the whole molecule is a symmetry of every result and shows nothing:
        # the steps go to the same atoms listed in another order and to other molecules)
        base = {"name": rng.choice(["LiH", "H2O", "OH", "HeH+"]), "basis": rng.choice(["sto-3g", "6-31g"]), "dseed": rng.below(10**6)}
        others = [n_ for n_ in NI_MOLS if n_ != base["name"]]
        mols = [dict(base), dict(base, name=REORDERED[base["name"]], dseed=base["dseed"] + 1), dict(base, name=rng.choice(others), dseed=base["dseed"] + 2)]
        if rng.chance(0.6):
            nld = [m_ for m_ in NI_MODELS if m_[0].startswith("nldf")]
            s_, ev_, mode_, ver_ = rng.choice(nld)
            models = [dict(models[0], settings=s_, ev=ev_, mode=mode_, version=ver_)]
        else:
            models = models[:1]
        models[0].pop("calc1", None)
        tmpl = {"op": "call", "model": 0, "mol": 0, "grid": 0, "uks": bool(rng.chance(0.4)), "dms": [0], "max_memory": 2000, "calc": 0, "container": "single", "alias": None}
        cur = 0
        ops.append(dict(tmpl))
        for it in range(rng.randint(2, 4)):
            nxt_ = (cur + 1 + rng.below(2)) % 3
            ops.append({"op": "regrid_inplace", "from_mol": cur, "to_mol": nxt_, "grid": 0})
            ops.append(dict(tmpl, mol=nxt_, dms=[rng.below(2)]))
            cur = nxt_
        return {"kind": "ni", "models": models, "mols": mols, "grids": grids[:1], "ops": ops, "perturb": rng.choice(PERTURBS)}
    if not big and rng.chance(0.08):
        # a model file that is overwritten by a retrained model (same recipe and shapes, other
        # numbers; the file keeps its name, size and time stamp) between two calculators
        m0 = dict(models[0], via_file=True)
        m0.pop("calc1", None)
        models = [m0, dict(m0, retrained=rng.choice([1.1, 0.9, 1.5]))]
        tmpl = {"op": "call", "model": 0, "mol": 0, "grid": 0, "uks": bool(rng.chance(0.4)), "dms": [0], "max_memory": 2000, "calc": 0, "container": "single", "alias": None}
        for it in range(rng.randint(2, 4)):
            ops.append(dict(tmpl, model=it % 2, dms=[rng.below(2)]))
        return {"kind": "ni", "models": models, "mols": mols[:1], "grids": grids[:1], "ops": ops, "perturb": rng.choice(PERTURBS)}
    if not big and rng.chance(0.1):
        # block sweep: one request under every memory budget (each budget cuts the grid into
        # other blocks), with a density threshold high enough for whole blocks to fall below it
        models = [dict(models[0], rhocut=rng.choice([1e-6, 1e-4, 1e-3, 1e-3]))]
        uks_ = bool(rng.chance(0.6))
        j_ = rng.below(3)
        mems = sorted(set(MAXMEMS), reverse=True)
        rng.shuffle(mems)
        # half of the sweeps use the displaced (not positive semi-definite) matrix of a
        # derivative check: tau < tau_W and negative tails meet every block boundary
        fd_ = bool(rng.chance(0.5))
        if fd_:
            j_ = 1
            if rng.chance(0.7):
                # ... on the restricted path of a nonlocal model (the feature generator keeps the
                # density of the feature pass for the potential pass)
                nld = [m_ for m_ in NI_MODELS if m_[0].startswith("nldf")]
                s_, ev_, mode_, ver_ = rng.choice(nld)
                models = [dict(models[0], settings=s_, ev=ev_, mode=mode_, version=ver_, rhocut=rng.choice([None, 1e-6]))]
                uks_ = False
        for mm in mems:
            ops.append({"op": "call", "model": 0, "mol": 0, "grid": 0, "uks": uks_, "dms": [j_], "max_memory": mm, "calc": 0, "container": "single", "alias": None})
        return {"kind": "ni", "models": models, "mols": mols[:1], "grids": grids[:1], "ops": ops, "perturb": rng.choice(PERTURBS), "fd_dm": fd_}
    if not big and rng.chance(0.1):
        # two calculators for one model on one grids object, configured with different optional
        # settings (angular cut-off, top exponent), used alternately
        nld = [m_ for m_ in NI_MODELS if m_[0].startswith("nldf")]
        s_, ev_, mode_, ver_ = rng.choice(nld)
        lm = rng.choice([(6, None), (None, 6), (8, None), (6, 8), (8, 6), (None, 8)])
        models = [dict(models[0], settings=s_, ev=ev_, mode=mode_, version=ver_, lmax=lm[0], calc1={"lmax": lm[1], "alpha_max": rng.choice([300.0, 3000.0])})]
        tmpl = {"op": "call", "model": 0, "mol": 0, "grid": 0, "uks": bool(rng.chance(0.4)), "dms": [0], "max_memory": 2000, "calc": 0, "container": "single", "alias": None}
        for it in range(rng.randint(3, 5)):
            ops.append(dict(tmpl, calc=it % 2, dms=[rng.below(2)], uks=bool(rng.chance(0.4))))
        return {"kind": "ni", "models": models, "mols": mols[:1], "grids": grids[:1], "ops": ops, "perturb": rng.choice(PERTURBS)}
    if not big and rng.chance(0.12):
        # a weave: one calculator, calls that walk through (spin treatment, molecule, grids)
        # combinations, first changing several of them at once and then only one - so that
        # state kept per spin treatment, per molecule or per grids object is asked for again
        # after the *other* coordinates have moved on (e.g. restricted on A, unrestricted on B,
        # restricted on B), emitted on purpose
        nld = [m_ for m_ in NI_MODELS if m_[0].startswith("nldf") or "sdmx" in m_[0]]
        s_, ev_, mode_, ver_ = rng.choice(nld)
        models = [dict(models[0], settings=s_, ev=ev_, mode=mode_, version=ver_)]
        models[0].pop("calc1", None)
        base = {"name": rng.choice(["LiH", "H2O", "OH", "HeH+"]), "basis": rng.choice(["sto-3g", "6-31g"]), "dseed": rng.below(10**6)}
        # the same atoms at another geometry (grids of the same size), or another molecule
        if rng.chance(0.7):
            other = dict(base, shift=None, dseed=base["dseed"] + 1, stretch=rng.choice([0.9, 1.15]))
        else:
            other = dict(base, name=rng.choice([n_ for n_ in NI_MOLS if n_ != base["name"]]), dseed=base["dseed"] + 1)
        mols = [base, other]
        grids = grids[:1] if rng.chance(0.6) else [grids[0], rng.choice(gcfgs)]
        tmpl = {"op": "call", "model": 0, "grid": 0, "dms": [0], "max_memory": 2000, "calc": 0, "container": "single", "alias": None}
        u0 = bool(rng.chance(0.5))
        walk = [(u0, 0, 0), (not u0, 1, 0), (u0, 1, 0), (not u0, 0, 0), (u0, 0, 0)]
        if len(grids) > 1:
            walk = [(u0, 0, 0), (not u0, 0, 1), (u0, 0, 1), (not u0, 1, 0), (u0, 1, 0), (u0, 0, 0)]
        for (u_, m_, g_) in walk[: rng.randint(3, len(walk))]:
            ops.append(dict(tmpl, uks=u_, mol=m_, grid=g_, dms=[rng.below(2)]))
        return {"kind": "ni", "models": models, "mols": mols, "grids": grids, "ops": ops, "perturb": rng.choice(PERTURBS)}
    for _ in range(rng.randint(3, 8)):
        c = rng.weighted([("call", 16), ("reset", 2), ("build", 2), ("regrid", 2), ("regrid_inplace", 4 if nmol > 1 else 0), ("drop_all", 1)])
        if c == "drop_all":
            # a data-set loop: every long-lived object (molecules, grids, calculators) goes out
            # of scope and is collected; later calls build new ones, possibly at the same addresses
            ops.append({"op": "drop_all"})
            continue
        if c == "call":
            nset = rng.weighted([(1, 4), (2, 3), (3, 2)])
            ops.append(
                {
                    "op": "call",
                    "model": rng.below(nm),
                    "mol": rng.below(nmol),
                    "grid": rng.below(len(grids)),
                    "uks": bool(rng.chance(0.45)),
                    "dms": [rng.below(3) for _ in range(nset)],
                    "max_memory": rng.choice([2000, 2000, 4000, 100, 4, 1.0]) if big else rng.choice(MAXMEMS),
                    # a second long-lived calculator for the same model (two KS objects in one script)
                    "calc": int(rng.chance(0.15)),  # (raised below when the two calculators are configured differently)
                    # a Python list of matrices is rejected by the CIDER integrators (AttributeError on .ndim):
                    # a rejection, not a result, so only stacked arrays are generated
                    # (a batch of one - shape (1, nao, nao) / (2, 1, nao, nao) - is a batch too)
                    "container": "array" if (nset > 1 or rng.chance(0.2)) else "single",
                    # ("rdm2d": a closed-shell matrix handed to the unrestricted entry point, which
                    # PySCF turns into one array object used for both spins)
                    "alias": rng.choice([None, None, None, "readonly", "fortran", "sameab", "rdm2d"]),
                }
            )
            if models[ops[-1]["model"]].get("calc1") and rng.chance(0.3):
                ops[-1]["calc"] = 1
            if rng.chance(0.16):
                # the gradient code's exchange-correlation matrices (what Gradients.get_veff asks
                # the calculator's integrator for), for one or several density matrices, with
                # any memory budget, between energy evaluations; all four drivers: restricted /
                # unrestricted, without / with grid response (the latter two take one matrix)
                gop = {"op": "gvxc", "model": ops[-1]["model"], "mol": ops[-1]["mol"], "grid": ops[-1]["grid"], "calc": ops[-1]["calc"], "dms": [rng.below(3) for _ in range(rng.weighted([(1, 3), (2, 3), (3, 1)]))], "max_memory": rng.choice(MAXMEMS[:5])}
                gop["resp"] = bool(rng.chance(0.45))
                # the force request of the *other* spin treatment than the energy call before it
                # (ks.to_uks() / to_rks() objects share the calculator's integrator), on purpose
                gop["uks"] = (not ops[-1]["uks"]) if rng.chance(0.5) else bool(ops[-1]["uks"])
                if gop["resp"] or gop["uks"]:
                    gop["dms"] = gop["dms"][:1]
                ops.append(gop)
            if rng.chance(0.1):
                # a density far outside the range the settings were built for (poor initial guess):
                # fresh objects reject it with the documented error, and so must long-lived ones;
                # the objects are used again afterwards
                ops[-1]["scale"] = rng.choice([30.0, 3000.0, 1e5])
                ops[-1]["dms"] = ops[-1]["dms"][:1]
                ops[-1]["container"] = "single"
                ops[-1]["alias"] = None
                if rng.chance(0.7):
                    # ... and the same objects go on with an ordinary request
                    nxt = {k_: v_ for k_, v_ in ops[-1].items() if k_ != "scale"}
                    nxt["dms"] = [rng.below(3)]
                    ops.append(nxt)
                continue
            if rng.chance(0.12):
                # the call is interrupted at a seeded point (un-acknowledged); most users then
                # simply issue it again on the same objects
                ops[-1]["fault"] = draw_fault(rng)
                if rng.chance(0.7):
                    ops.append({k_: v_ for k_, v_ in ops[-1].items() if k_ != "fault"})
        elif c == "regrid":
            ops.append({"op": "regrid", "mol": rng.below(nmol), "grid": rng.below(len(grids))})
        elif c == "regrid_inplace":
            prev = [o for o in ops if o["op"] == "call" and not o.get("fault") and not o.get("scale")]
            if prev and rng.chance(0.7):
                # a geometry step as a scanner does it: the grids object of the last call is
                # re-targeted to another molecule and rebuilt in place, then the same calculator
                # is called again with it
                last = prev[-1]
                a = last["mol"]
                b = (a + 1 + rng.below(nmol - 1)) % nmol
                ops.append({"op": "regrid_inplace", "from_mol": a, "to_mol": b, "grid": last["grid"]})
                nxt = {k_: v_ for k_, v_ in last.items() if k_ not in ("fault", "scale")}
                nxt["mol"] = b
                ops.append(nxt)
            else:
                a = rng.below(nmol)
                ops.append({"op": "regrid_inplace", "from_mol": a, "to_mol": (a + 1 + rng.below(nmol - 1)) % nmol, "grid": rng.below(len(grids))})
        else:
            ops.append({"op": c, "model": rng.below(nm), "mol": rng.below(nmol)})
    if not any(o["op"] == "call" and len(o["dms"]) > 1 for o in ops) and rng.chance(0.6):
        o = dict([x for x in ops if x["op"] == "call"][0]) if any(x["op"] == "call" for x in ops) else None
        if o:
            o["dms"] = [0, 1]
            o["container"] = "array"
            ops.append(o)
    return {"kind": "ni", "models": models, "mols": mols, "grids": grids, "ops": ops, "perturb": rng.choice(PERTURBS)}


def exec_ni_history(hist, rp):
    U = Universe(hist)
    viol = []
    stats = Counter()
    dg = Digest()

    def V(key, detail):
        viol.append({"key": key, "detail": detail, "replay": rp})

    held = []
    last_call = rp.setdefault("_last_call", {})  # filled for the process-fresh reference (popped by run_case)
    calcs = {}  # model -> ks   long-lived calculators
    gridobjs = {}  # (model-is-nldf, mol, grid) -> grids object (long-lived, shared between calls)
    # fault enumeration re-runs one short history for every fault point: its fresh-object
    # references are the same every time and are shared within the worker
    refs = _SHARED_REFS.setdefault(json.dumps([hist["models"], hist["mols"], hist["grids"]], sort_keys=True), {}) if hist.get("share_refs") else {}
    judge_from = int(hist.get("judge_from", 0))

    def mdesc_of(mi, ci=0):
        md = hist["models"][mi]
        return dict(md, **md["calc1"]) if (ci and md.get("calc1")) else md

    def reference(mi, k, gi, uks, j, scale=1.0, rdm2d=False, ci=0):
        """fresh objects, nset = 1, default max_memory, one call, other allocator pattern"""
        ci = ci if hist["models"][mi].get("calc1") else 0
        key = (mi, json.dumps(hist["mols"][k], sort_keys=True), json.dumps(hist["grids"][gi], sort_keys=True), uks, j, scale, rdm2d, ci)
        if key not in refs:
            set_perturb(hist["perturb"] ^ 0x5A)
            model = U.fresh_model(mi)
            mol = U.mol(k, fresh=True)
            ks = make_ks(model, mol, uks, hist["grids"][gi], dict(mdesc_of(mi, ci), via_file=False))  # (the object itself, not a file)
            ks.build()
            g = build_grids(ks, mol)
            dm = np.array(U.dm(k, 2 if uks else 1, j), copy=True) * scale
            if rdm2d:
                dm = np.array(U.dm(k, 1, j), copy=True)
            fn = ks._numint.nr_uks if uks else ks._numint.nr_rks
            try:
                n, e, v = fn(mol, g, ks.xc, dm)
            except RuntimeError as ex:
                if scale != 1.0 and "exponent is too large" in str(ex):
                    refs[key] = "rejected"
                    stats["reference_calls"] += 1
                    set_perturb(hist["perturb"])
                    return refs[key]
                raise
            refs[key] = (np.array(n, copy=True), float(e), np.array(v, copy=True))
            stats["reference_calls"] += 1
            set_perturb(hist["perturb"])
        return refs[key]

    set_perturb(hist["perturb"])
    for step, op in enumerate(hist["ops"]):
        c = op["op"]
        stats["op_" + c] += 1
        dg.add(c)
        if c in ("reset", "build"):
            ks = calcs.get((op["model"], 0))
            if ks is not None:
                mol = U.mol(op["mol"])
                if c == "reset":
                    ks._numint.reset(mol)
                else:
                    ks._numint.build(mol)
                stats["generator_drops"] += 1
            continue
        if c == "regrid_inplace":
            # the *same* grids objects are re-targeted to another molecule and rebuilt in place
            # (what Grids.reset(mol) + build() do in a geometry scan), so a later call sees an
            # unchanged grids identity but a different molecule
            mol2 = U.mol(op["to_mol"])
            for key in [k for k in gridobjs if k[1] == op["from_mol"] and k[2] == op["grid"]]:
                g = gridobjs.pop(key)
                g.reset(mol2)
                g.build(with_non0tab=False)
                gridobjs[(key[0], op["to_mol"], key[2])] = g
                stats["grids_rebuilt_in_place"] += 1
            continue
        if c == "drop_all":
            import gc

            calcs.clear()
            gridobjs.clear()
            U._mols.clear()
            U._dms.clear()
            U._models.clear()
            ks = ni = g = mol = model = tmp = fn = arg = dms = None  # every local that may still hold them
            gc.collect()
            stats["everything_dropped_and_collected"] += 1
            # the next item's molecule is created at once (as the loop of a script does), which
            # is when the allocator is most likely to hand out a block that was just freed
            for nxt in hist["ops"][step + 1 :]:
                if nxt["op"] == "call":
                    U.mol(nxt["mol"])
                    break
            continue
        if c == "regrid":
            # replace the long-lived grids objects of this (mol, grid) by rebuilt-but-equal ones
            for key in [k for k in gridobjs if k[1] == op["mol"] and k[2] == op["grid"]]:
                del gridobjs[key]
            # the old objects really go away, so that the rebuilt-but-equal ones may get their
            # addresses (a cache keyed on id() would then confuse them)
            import gc

            gc.collect()
            stats["grids_dropped_and_collected"] += 1
            continue
        if c == "gvxc":
            from ciderpress.pyscf import rks_grad, uks_grad

            mi, k, gi = op["model"], op["mol"], op["grid"]
            ckg = (mi, op.get("calc", 0))
            gkg = (bool(U.model(mi).settings.has_nldf), k, gi)
            if ckg not in calcs or gkg not in gridobjs:
                continue  # (always generated after a call on these objects; a minimised history may differ)
            ks, g, mol = calcs[ckg], gridobjs[gkg], U.mol(k)
            if U.model(mi).settings.has_sdmx:
                continue  # the gradient code rejects SDMX features (NotImplementedError)
            g_uks, g_resp = bool(op.get("uks")), bool(op.get("resp"))
            gmod = uks_grad if g_uks else rks_grad
            gfn = gmod.get_vxc_full_response if g_resp else gmod.get_vxc
            gname = "%s.%s" % ("uks_grad" if g_uks else "rks_grad", "get_vxc_full_response" if g_resp else "get_vxc")
            nsp = 2 if g_uks else 1

            def gdm(j):
                return np.array(U.dm(k, nsp, j), copy=True)

            if g_uks:
                arg_g = gdm(op["dms"][0])
            else:
                dms_g = np.stack([gdm(j) for j in op["dms"]])
                arg_g = dms_g if len(op["dms"]) > 1 else dms_g[0]
            b_g = adigest(arg_g)
            try:
                eb, vb = gfn(ks._numint, mol, g, ks.xc, arg_g, max_memory=op["max_memory"])
            except NotImplementedError:
                stats["gradient_potential_not_implemented_for_model"] += 1
                continue
            except Exception as ex:
                if hist.get("fd_dm") and 1 in op["dms"]:
                    # (a displaced, not positive semi-definite matrix: see the energy calls)
                    try:
                        ksr = make_ks(U.fresh_model(mi), U.mol(k, fresh=True), g_uks, hist["grids"][gi], dict(mdesc_of(mi, op.get("calc", 0)), via_file=False))
                        ksr.build()
                        gfn(ksr._numint, ksr.mol, build_grids(ksr, ksr.mol), ksr.xc, gdm(1))
                        same = False
                    except Exception as ex2:
                        same = type(ex2).__name__ == type(ex).__name__
                    if same:
                        stats["displaced_matrix_refused_by_fresh_objects_too"] += 1
                        continue
                V("call-raises:%s:%s" % (gname, type(ex).__name__), "step %d: %s" % (step, str(ex)[:200]))
                break
            if adigest(arg_g) != b_g:
                V("input-mutated:%s:dm" % gname, "step %d" % step)
            stats["gradient_potential_calls"] += 1
            stats["gradient_potential_calls_%s" % gname] += 1
            stats["gradient_potential_calls_nset_%d" % len(op["dms"])] += 1
            vb = np.asarray(vb)
            for idx, j in enumerate(op["dms"]):
                rk = ("gvxc", gname, mi, json.dumps(hist["mols"][k], sort_keys=True), json.dumps(hist["grids"][gi], sort_keys=True), j, op.get("calc", 0) if hist["models"][mi].get("calc1") else 0)
                if rk not in refs:
                    set_perturb(hist["perturb"] ^ 0x5A)
                    ksr = make_ks(U.fresh_model(mi), U.mol(k, fresh=True), g_uks, hist["grids"][gi], dict(mdesc_of(mi, op.get("calc", 0)), via_file=False))
                    ksr.build()
                    molr = ksr.mol
                    gr = build_grids(ksr, molr)
                    if g_resp:
                        # forces follow an energy evaluation of the same object (the grid-response
                        # drivers are never the first request a calculator sees)
                        (ksr._numint.nr_uks if g_uks else ksr._numint.nr_rks)(molr, gr, ksr.xc, gdm(j))
                    er, vr = gfn(ksr._numint, molr, gr, ksr.xc, gdm(j))
                    refs[rk] = (None if er is None else np.array(er, copy=True), np.array(vr, copy=True))
                    set_perturb(hist["perturb"])
                    stats["reference_calls"] += 1
                got = vb[idx] if (len(op["dms"]) > 1 and not g_uks) else vb
                ok, why = close(got, refs[rk][1])
                stats["comparisons"] += 1
                if not ok:
                    oracle = "batch_vs_single" if len(op["dms"]) > 1 else "history_vs_fresh"
                    V("%s:%s:vmat:%s" % (oracle, gname, "single" if len(op["dms"]) == 1 else ("idm<nset-1" if idx < len(op["dms"]) - 1 else "idm=last")), "step %d (%s max_memory=%s): %s" % (step, hist["models"][mi]["settings"], op["max_memory"], why))
                if g_resp and refs[rk][0] is not None and eb is not None:
                    ok, why = close(np.asarray(eb), refs[rk][0])
                    stats["comparisons"] += 1
                    if not ok:
                        V("history_vs_fresh:%s:exc1_grid" % gname, "step %d (%s): %s" % (step, hist["models"][mi]["settings"], why))
            continue
        mi, k, gi, uks = op["model"], op["mol"], op["grid"], op["uks"]
        model = U.model(mi)
        mol = U.mol(k)
        ck = (mi, op.get("calc", 0))  # long-lived calculators: each sees restricted and unrestricted calls
        if op.get("calc"):
            stats["calls_on_second_calculator_of_a_model"] += 1
        if g_size_probe(hist, gi):
            stats["calls_on_grid_above_block_cap"] += 1
        if ck not in calcs:
            ks = make_ks(model, mol, False, hist["grids"][gi], mdesc_of(mi, op.get("calc", 0)))
            ks.build()
            calcs[ck] = ks
            stats["second_calculator_with_other_options"] += int(bool(op.get("calc") and hist["models"][mi].get("calc1")))
            stats["calculators_built"] += 1
        ks = calcs[ck]
        ni = ks._numint
        gk = (bool(model.settings.has_nldf), k, gi)
        if gk not in gridobjs:
            tmp = make_ks(model, mol, uks, hist["grids"][gi], dict(hist["models"][mi], via_file=False))
            gridobjs[gk] = build_grids(tmp, mol)
        g = gridobjs[gk]
        # probes for reuse vs re-initialisation
        had_nldf = getattr(ni, "nldfgen", None)
        had_sdmx = getattr(ni, "sdmxgen", None)
        last_uks = getattr(ni, "_verif_last_uks", None)
        if last_uks is not None and last_uks != uks:
            stats["spin_mode_switches_on_one_calculator"] += 1
        ni._verif_last_uks = uks
        nspin = 2 if uks else 1
        scale = float(op.get("scale", 1.0))
        dms = [np.array(U.dm(k, nspin, j), copy=True) * scale for j in op["dms"]]
        if op["container"] == "single":
            arg = dms[0]
        elif op["container"] == "array":
            arg = np.stack(dms) if not uks else np.stack(dms, axis=1)
        else:
            arg = [d for d in dms] if not uks else (np.stack([d[0] for d in dms]), np.stack([d[1] for d in dms]))
        if op["alias"] == "readonly" and isinstance(arg, np.ndarray):
            arg.setflags(write=False)
        elif op["alias"] == "fortran" and isinstance(arg, np.ndarray):
            arg = np.asfortranarray(arg)
        elif op["alias"] == "sameab" and uks and op["container"] == "single":
            arg = np.stack([dms[0][0], dms[0][0]])  # both channels... still two arrays
            arg = (arg[0], arg[0])  # the *same* array object as alpha and beta
        rdm2d = bool(op["alias"] == "rdm2d" and uks and op["container"] == "single" and scale == 1.0)
        if rdm2d:
            arg = np.array(U.dm(k, 1, op["dms"][0]), copy=True)
        before = adigest(*(arg if isinstance(arg, (list, tuple)) else [arg]), g.coords, g.weights, mol._atm, mol._bas, mol._env)
        fn = ni.nr_uks if uks else ni.nr_rks
        inj = for_op(op)
        try:
            with inj:
                n, e, v = fn(mol, g, ks.xc, arg, max_memory=op["max_memory"])
        except Exception as ex:
            import traceback

            if inj.fired:

                remember(op, inj)
                # un-acknowledged call: nothing is demanded of it; the objects live on
                stats["calls_interrupted_by_injected_failure"] += 1
                stats["fault_site_" + inj.where] += 1
                continue

            tb = traceback.extract_tb(ex.__traceback__)
            ref_exc = None
            try:
                for j in op["dms"]:
                    if reference(mi, k, gi, uks, j, scale, ci=op.get("calc", 0)) == "rejected":
                        ref_exc = "RuntimeError"
            except Exception as ex2:
                ref_exc = type(ex2).__name__
                set_perturb(hist["perturb"])
            if ref_exc == type(ex).__name__ and isinstance(ex, RuntimeError) and "exponent is too large" in str(ex):
                # a documented rejection that fresh objects issue as well; the objects are used again
                stats["rejected_by_fresh_objects_too"] += 1
                continue
            if ref_exc == type(ex).__name__ and hist.get("fd_dm") and 1 in op["dms"]:
                # a displaced matrix that is not positive semi-definite can give negative
                # densities where a model has no value (NaN, refused by the solver): a request
                # fresh objects refuse in the same way says nothing about history
                stats["displaced_matrix_refused_by_fresh_objects_too"] += 1
                continue
            V("call-raises:%s:%s:%s" % ("nr_uks" if uks else "nr_rks", type(ex).__name__, tb[-1].name if tb else "?"), "step %d: %s" % (step, str(ex)[:200]))
            break
        if op.get("fault") and not inj.fired:
            stats["injected_failure_point_beyond_end_of_call"] += 1
        after = adigest(*(arg if isinstance(arg, (list, tuple)) else [arg]), g.coords, g.weights, mol._atm, mol._bas, mol._env)
        scribble(hist, stats, *(arg if isinstance(arg, (list, tuple)) else [arg]))
        stats["calls"] += 1
        stats["calls_nset_%d" % len(dms)] += 1
        stats["calls_uks" if uks else "calls_rks"] += 1
        if op["max_memory"] != 2000:
            stats["calls_small_blocks"] += 1
        if op["alias"]:
            stats["alias_" + op["alias"]] += 1
        if had_nldf is not None and ni.nldfgen is had_nldf:
            stats["nldf_generator_reused"] += 1
        elif getattr(ni, "nldfgen", None) is not None:
            stats["nldf_generator_initialised"] += 1
        if had_sdmx is not None and ni.sdmxgen is had_sdmx:
            stats["sdmx_generator_reused"] += 1
        elif getattr(ni, "sdmxgen", None) is not None:
            stats["sdmx_generator_initialised"] += 1
        fam = type(ni).__name__
        site = "%s.%s" % (fam, "nr_uks" if uks else "nr_rks")
        if before != after:
            V("input-mutated:%s:dm-grid-or-mol" % site, "step %d: caller-owned arrays changed by the call" % step)
        chg = check_option_objects(ks)
        if chg:
            V("input-mutated:PySCFNLDFInitializer:option-object", "step %d: an option passed as a 0-d array was changed in place (%s)" % (step, chg))
        nset = len(dms)
        for lab, arr, snap in held:
            if not np.array_equal(np.asarray(arr), snap, equal_nan=True):
                V("result-aliased:%s:%s" % (site, lab), "step %d: an array returned by an earlier call was changed by a later call" % step)
                break
        n = np.asarray(n)
        v = np.asarray(v)
        e = np.asarray(e)
        held.append(("vmat", v, np.array(v, copy=True)))
        held.append(("nelec", n, np.array(n, copy=True)))
        if scale == 1.0 and op["alias"] != "sameab" and not rdm2d:
            last_call["op"] = {k_: v_ for k_, v_ in op.items() if k_ != "fault"}
            last_call["out"] = (np.array(n, copy=True), np.array(e, copy=True), np.array(v, copy=True))
            last_call.setdefault("all", {})[step] = (last_call["op"], last_call["out"])
        stats["held_results_rechecked"] += 2
        for idx, j in enumerate(op["dms"]):
            if op["alias"] == "sameab" or step < judge_from:
                continue  # other input than the memoised reference; only the mutation check applies
            rref = reference(mi, k, gi, uks, j, scale, rdm2d, ci=op.get("calc", 0))
            if rref == "rejected":
                V("history_vs_fresh:%s:accepts-what-fresh-objects-reject" % site, "step %d: fresh objects raise 'NLDF exponent is too large' for this request, the long-lived calculator returned numbers" % step)
                continue
            rn, re, rv = rref
            if nset == 1 and (op["container"] == "single" or np.ndim(e) == 0):
                # (a batch of one comes back either squeezed or with a leading axis of 1,
                # depending on the integrator; both carry the same numbers)
                gn, ge, gv = n, e, v
            else:
                gn = n[..., idx] if uks else n[idx]
                ge = e[idx]
                gv = v[:, idx] if uks else v[idx]
            disc = "single" if nset == 1 else ("idm<nset-1" if idx < nset - 1 else "idm=last")
            for name, got, want in (("nelec", gn, rn), ("excsum", ge, re), ("vmat", gv, rv)):
                ok, why = close(got, want)
                stats["comparisons"] += 1
                if not ok:
                    oracle = "batch_vs_single" if nset > 1 else "history_vs_fresh"
                    V("%s:%s:%s:%s" % (oracle, site, name, disc), "step %d (%s max_memory=%s container=%s): %s" % (step, hist["models"][mi]["settings"], op["max_memory"], op["container"], why))
            dg.add_array(np.round(np.asarray(rv), 8))
    # in-memory inputs never change
    return viol, stats, dg


# ---------------------------------------------------------------------------------
# generator-level histories
# ---------------------------------------------------------------------------------
def gen_gen_history(seed):
    from cidersim.workloads import omp_workloads as W

    rng = Rng(derive("c09-gen", seed))
    if rng.chance(0.22):
        # descriptor-generation generator ("train_gen" interpolator): output coordinates are
        # re-targeted between calls; features with occupation derivatives
        p = W.draw_nldf_params(rng)
        p["nspin"] = 1
        p["interp"] = "train_gen"
        p["mol"] = rng.choice(["He", "He", "H2", "LiH"])
        ops = []
        TWIN = {1: 3, 3: 1, 2: 4, 4: 2}
        if rng.chance(0.4):
            # descriptors of one system on a sequence of point sets, look-alikes in a row
            a_ = rng.choice([1, 2, 3, 4])
            for c_ in (a_, TWIN[a_], a_, rng.below(5), TWIN[a_]):
                ops.append({"op": "setc", "spin": 0, "c": c_})
                ops.append({"op": "occd", "spin": 0, "rho": rng.below(3), "norb": rng.choice([0, 1, 2]), "same_out": False, "alias": None})
            return {"kind": "tgen", "params": p, "ops": ops, "perturb": rng.choice(PERTURBS)}
        for _ in range(rng.randint(3, 8)):
            c = rng.weighted([("setc", 3), ("occd", 5), ("feat", 2)])
            if c == "setc":
                prev_c = [o["c"] for o in ops if o["op"] == "setc"]
                if prev_c and prev_c[-1] in TWIN and rng.chance(0.5):
                    # the look-alike of the current point set: as many points, elsewhere
                    ops.append({"op": "setc", "spin": 0, "c": TWIN[prev_c[-1]]})
                    continue
                ops.append({"op": "setc", "spin": 0, "c": rng.below(5)})
            elif c == "occd":
                ops.append({"op": "occd", "spin": 0, "rho": rng.below(3), "norb": rng.choice([0, 1, 2, 3]), "same_out": bool(rng.chance(0.3)), "alias": rng.choice([None, None, "readonly"])})
            else:
                ops.append({"op": "tfeat", "spin": 0, "rho": rng.below(3)})
            if c != "setc" and rng.chance(0.1):
                ops[-1]["fault"] = draw_fault(rng, 300)
        return {"kind": "tgen", "params": p, "ops": ops, "perturb": rng.choice(PERTURBS)}
    if rng.chance(0.7):
        p = W.draw_nldf_params(rng)
        p["nspin"] = rng.choice([1, 2, 2])
        p["interp"] = rng.choice(["onsite_direct", "onsite_spline"])
        p["mol"] = rng.choice(["He", "H2", "LiH"])
        ops = []
        npool = 3
        have = set()
        # several generator objects alive at once (same settings): their calls interleave
        nobj = rng.weighted([(1, 3), (2, 2)])
        for _ in range(rng.randint(3, 9)):
            s = rng.below(p["nspin"])
            if s in have and rng.chance(0.5):
                ops.append({"op": "pot", "spin": s, "v": rng.below(npool), "alias": rng.choice([None, None, "readonly"]), "obj": rng.below(nobj)})
                if rng.chance(0.1):
                    ops[-1]["fault"] = draw_fault(rng, 300)
            else:
                # mode: "plain" = sorted-grid layout (energy path); "nomap" / "grad" = atomic-grid
                # layout without / with the force intermediates (what the gradient code calls on
                # the calculator's generator between energy evaluations)
                # alias "reuse": the caller keeps one workspace array per spin and refills it in
                # place before calling again (what an SCF driver with preallocated buffers does)
                ops.append({"op": "feat", "spin": s, "rho": rng.below(npool), "alias": rng.choice([None, "readonly", "view", "reuse", "reuse", "reuse"]), "mode": rng.weighted([("plain", 6), ("nomap", 2), ("grad", 2)]), "obj": rng.below(nobj)})
                have.add(s)
                if rng.chance(0.1):
                    ops[-1]["fault"] = draw_fault(rng, 400)
                    have.discard(s)  # an interrupted feature pass leaves nothing to build a potential from
                elif rng.chance(0.12):
                    # a density far outside the interpolation range: the package rejects the feature
                    # pass itself (RuntimeError); a caller that catches the error and asks for a
                    # potential anyway must be refused, as a fresh generator refuses it
                    ops[-1]["scale"] = rng.choice([1e4, 1e6, 1e8])
                    ops[-1]["alias"] = None
                    have.discard(s)
                    if rng.chance(0.8):
                        ops.append({"op": "pot", "spin": s, "v": rng.below(npool), "alias": None, "obj": ops[-1]["obj"], "after_rejection": True})
        return {"kind": "nldfgen", "params": p, "ops": ops, "nobj": nobj, "perturb": rng.choice(PERTURBS)}
    p = W.draw_sdmx_params(rng)
    p["nspin"] = rng.choice([1, 2])
    ops = []
    for _ in range(rng.randint(2, 7)):
        ops.append({"op": "featvxc", "ngrids": rng.choice([1, 3, 16, 57, 112, 200, 57, 16]), "cseed": rng.below(5), "nset": rng.choice([1, 1, 2]), "dm": rng.below(3), "save_buf": bool(rng.chance(0.5)), "vxc_twice": bool(rng.chance(0.3))})
        if rng.chance(0.12):
            ops[-1]["fault"] = draw_fault(rng, 200)
    return {"kind": "sdmxgen", "params": p, "ops": ops, "perturb": rng.choice(PERTURBS)}


def exec_nldfgen_history(hist, rp):
    from cidersim.workloads import omp_workloads as W

    p = hist["params"]
    viol = []
    stats = Counter()
    dg = Digest()

    def V(key, detail):
        viol.append({"key": key, "detail": detail, "replay": rp})

    set_perturb(hist["perturb"])
    st, mol, grids, gen = W._make_nldfgen(p)
    nrho = 5 if st.sl_settings.level == "MGGA" else 4
    ng = grids.weights.size
    nprng = np.random.default_rng(p["dseed"])
    rhos = [W._rho_data(nprng, nrho, ng) for _ in range(3)]
    for r in rhos:
        r[0, : min(5, ng)] = 1e-12  # below rhocut: exercises the cutoff branches
    nfeat = st.nldf_settings.nfeat
    vs = [nprng.normal(size=(nfeat, ng)) for _ in range(3)]
    # atomic-grid layout (map_grids=False): densities on all ngrids_ato points, potentials on
    # the sorted grid incl. padding
    ng_ato = grids.grids_indexer.ngrids
    ng_pad = grids.grids_indexer.idx_map.size + grids.grids_indexer.padding
    nprng2 = np.random.default_rng(p["dseed"] + 1)
    rhos_ato = [W._rho_data(nprng2, nrho, ng_ato) for _ in range(3)]
    vs_pad = [nprng2.normal(size=(nfeat, ng_pad)) for _ in range(3)]
    near_dup(hist, rhos, stats)
    near_dup(hist, rhos_ato, stats, seed=1)
    near_dup(hist, vs, stats, seed=2)
    fresh = {}
    KW = {"plain": {}, "nomap": {"map_grids": False}, "grad": {"map_grids": False, "grad_mode": True}}

    def fresh_gen():
        set_perturb(hist["perturb"] ^ 0x5A)
        g = W._make_nldfgen(p)[3]
        return g

    def rho_of(i, mode):
        return rhos[i] if mode == "plain" else rhos_ato[i]

    def v_of(j, mode):
        return vs[j] if mode == "plain" else vs_pad[j]

    def as_list(x):
        return [np.array(y, copy=True) for y in x] if isinstance(x, tuple) else [np.array(x, copy=True)]

    def ref_feat(i, s, mode="plain"):
        if ("f", i, s, mode) not in fresh:
            g = fresh_gen()
            fresh[("f", i, s, mode)] = np.array(g.get_features(rho_of(i, mode).copy(), spin=s, **KW[mode]), copy=True)
            set_perturb(hist["perturb"])
            stats["reference_calls"] += 1
        return fresh[("f", i, s, mode)]

    def ref_pot(i, j, s, mode="plain"):
        if ("p", i, j, s, mode) not in fresh:
            g = fresh_gen()
            g.get_features(rho_of(i, mode).copy(), spin=s, **KW[mode])
            fresh[("p", i, j, s, mode)] = as_list(g.get_potential(v_of(j, mode).copy(), spin=s, **KW[mode]))
            set_perturb(hist["perturb"])
            stats["reference_calls"] += 1
        return fresh[("p", i, j, s, mode)]

    gens = [gen] + [W._make_nldfgen(p)[3] for _ in range(int(hist.get("nobj", 1)) - 1)]
    rejected = {}  # (object, spin) -> (density, mode, the fresh generator that rejected it too)
    last_rho = {}
    last_mode = {}
    work = {}  # (obj, spin, shape) -> the caller's persistent workspace array
    held = []  # (label, returned array object, copy at return time)

    def check_held(step):
        for label, arr, snap in held:
            if not np.array_equal(np.asarray(arr), snap, equal_nan=True):
                V("result-aliased:LCAONLDFGenerator.%s" % label, "step %d: an array returned by an earlier call was changed by a later call" % step)
                return

    for step, op in enumerate(hist["ops"]):
        stats["op_" + op["op"]] += 1
        dg.add(op["op"], op["spin"])
        s = op["spin"]
        oi = op.get("obj", 0) % len(gens)
        gen = gens[oi]
        sk = (oi, s)
        if len(gens) > 1:
            stats["ops_on_second_live_object"] += int(oi > 0)
        check_held(step)
        if op["op"] == "feat":
            mode = op.get("mode", "plain")
            stats["feat_mode_" + mode] += 1
            nrow, ncol = rho_of(op["rho"], mode).shape
            arr = rho_of(op["rho"], mode).copy()
            if op["alias"] == "reuse":
                wk = (oi, s, arr.shape)
                if wk in work:
                    work[wk][...] = arr  # refilled in place: same array object as last time
                    stats["workspace_refilled_in_place"] += 1
                else:
                    work[wk] = arr
                arr = work[wk]
            if op["alias"] == "readonly":
                arr.setflags(write=False)
            elif op["alias"] == "view":
                big = np.zeros((nrow + 2, ncol))
                big[1 : nrow + 1] = arr
                arr = big[1 : nrow + 1]
            if op.get("scale"):
                arr = rho_of(op["rho"], mode).copy() * float(op["scale"])
                fg = fresh_gen()
                try:
                    fg.get_features(arr.copy(), spin=s, **KW[mode])
                    fresh_rejects = False
                except RuntimeError:
                    fresh_rejects = True
                last_rho.pop(sk, None)
                last_mode.pop(sk, None)
                if not fresh_rejects:
                    stats["out_of_range_density_accepted_by_fresh_generator_not_judged"] += 1
                    try:
                        gen.get_features(arr.copy(), spin=s, **KW[mode])
                    except Exception:
                        pass
                    continue
                try:
                    gen.get_features(arr.copy(), spin=s, **KW[mode])
                    V("history_vs_fresh:LCAONLDFGenerator.get_features:accepts-what-fresh-objects-reject", "step %d: density x %g" % (step, op["scale"]))
                    break
                except RuntimeError:
                    stats["feature_passes_rejected_by_the_package"] += 1
                    rejected[sk] = (arr, mode, fg)
                continue
            b = adigest(arr)
            inj = for_op(op)
            try:
                with inj:
                    f = gen.get_features(arr, spin=s, **KW[mode])
            except Exception as ex:
                if inj.fired:
                    remember(op, inj)
                    stats["calls_interrupted_by_injected_failure"] += 1
                    stats["fault_site_" + inj.where] += 1
                    last_rho.pop(sk, None)
                    last_mode.pop(sk, None)
                    continue
                V("call-raises:LCAONLDFGenerator.get_features:%s:%s" % (type(ex).__name__, op["alias"]), "step %d (%s): %s" % (step, mode, str(ex)[:200]))
                break
            if adigest(arr) != b:
                V("input-mutated:LCAONLDFGenerator.get_features:rho", "step %d: rho_in changed (max |delta| %.3g)" % (step, float(np.abs(np.asarray(arr) - rho_of(op["rho"], mode)).max())))
            held.append(("get_features", f, np.array(f, copy=True)))
            ok, why = close(f, ref_feat(op["rho"], s, mode))
            stats["comparisons"] += 1
            if not ok:
                V("history_vs_fresh:LCAONLDFGenerator.get_features:feat:spin%d" % s + ("" if mode == "plain" else ":" + mode), "step %d: %s" % (step, why))
            last_rho[sk] = op["rho"]
            last_mode[sk] = mode
            if len(last_rho) > 1:
                stats["spin_interleavings"] += 1
        else:
            if sk in rejected and sk not in last_rho:
                # a potential is asked for although the last feature pass of this spin was rejected
                arr0, mode0, fg = rejected.pop(sk)
                varr = v_of(op["v"], mode0).copy()
                try:
                    fg.get_potential(varr.copy(), spin=s, **KW[mode0])
                    fresh_refuses = False
                except Exception:
                    fresh_refuses = True
                try:
                    gen.get_potential(varr.copy(), spin=s, **KW[mode0])
                    answered = True
                except Exception:
                    answered = False
                stats["potential_requests_after_rejected_feature_pass"] += 1
                if fresh_refuses and answered:
                    V("history_vs_fresh:LCAONLDFGenerator.get_potential:answers-what-fresh-objects-refuse", "step %d: the feature pass of spin %d was rejected, a fresh generator refuses the potential, the long-lived one returned numbers (of an earlier density)" % (step, s))
                continue
            if sk not in last_rho:
                continue
            mode = last_mode[sk]
            arr = v_of(op["v"], mode).copy()
            if op["alias"] == "readonly":
                arr.setflags(write=False)
            b = adigest(arr)
            inj = for_op(op)
            try:
                with inj:
                    pot = gen.get_potential(arr, spin=s, **KW[mode])
            except Exception as ex:
                if inj.fired:
                    remember(op, inj)
                    # the feature pass of this spin stays valid: a repeated potential
                    # evaluation must still work
                    stats["calls_interrupted_by_injected_failure"] += 1
                    stats["fault_site_" + inj.where] += 1
                    continue
                V("call-raises:LCAONLDFGenerator.get_potential:%s:%s" % (type(ex).__name__, op["alias"]), "step %d (%s): %s" % (step, mode, str(ex)[:200]))
                break
            if adigest(arr) != b:
                V("input-mutated:LCAONLDFGenerator.get_potential:vfeat", "step %d: vfeat changed by the call (nspin=%d)" % (step, p["nspin"]))
            # (rho is not overwritten: the generator documents that it keeps the density of
            # the feature pass for the potential pass)
            scribble(hist, stats, arr)
            pots = list(pot) if isinstance(pot, tuple) else [pot]
            refs = ref_pot(last_rho[sk], op["v"], s, mode)
            for k, (pk, rk) in enumerate(zip(pots, refs)):
                held.append(("get_potential", pk, np.array(pk, copy=True)))
                ok, why = close(pk, rk)
                stats["comparisons"] += 1
                if not ok:
                    V("history_vs_fresh:LCAONLDFGenerator.get_potential:%s:spin%d" % (["vrho", "cidergg", "excsum"][k], s) + ("" if mode == "plain" else ":" + mode), "step %d: %s" % (step, why))
            stats["potential_calls"] += 1
    check_held(len(hist["ops"]))
    stats["held_results_rechecked"] += len(held)
    return viol, stats, dg


def exec_tgen_history(hist, rp):
    """descriptor-generation generator: set_coords to other point sets, features with
    occupation derivatives, plain features, in any order, vs a fresh generator"""
    from cidersim.workloads import omp_workloads as W

    p = hist["params"]
    viol = []
    stats = Counter()
    dg = Digest()

    def V(key, detail):
        viol.append({"key": key, "detail": detail, "replay": rp})

    set_perturb(hist["perturb"])
    st, mol, grids, gen = W._make_nldfgen(p)
    nrho = 5 if st.sl_settings.level == "MGGA" else 4
    ng = grids.weights.size
    r = np.random.default_rng(p["dseed"])
    rhos = [W._rho_data(r, nrho, ng) for _ in range(3)]
    orbs = [np.stack([W._rho_data(r, nrho, ng, scale=0.3) for _ in range(3)]) for _ in range(3)]
    # (look-alike point sets: the same number of points at other positions)
    csets = [np.ascontiguousarray(r.normal(size=(n, 3)) * 1.2) for n in (7, 40, 131, 40, 131)]
    prhos = [[W._rho_data(r, nrho, c.shape[0]) for c in csets] for _ in range(3)]
    porbs = [[np.stack([W._rho_data(r, nrho, c.shape[0], scale=0.3) for _ in range(3)]) for c in csets] for _ in range(3)]
    cur = None  # index into csets, or "grid"

    def point(g, c):
        g.interpolator.set_coords(grids.coords if c == "grid" else csets[c])

    def call(g, op, c):
        if op["op"] == "tfeat":
            a = rhos[op["rho"]].copy()
            return [np.array(g.get_features(a, spin=0), copy=True)], [(a, rhos[op["rho"]])]
        i, n = op["rho"], op["norb"]
        a, b = rhos[i].copy(), orbs[i][:n].copy()
        if op.get("alias") == "readonly":
            a.setflags(write=False)
            b.setflags(write=False)
        if op["same_out"] or c == "grid":
            f, d = g.get_features_and_occ_derivs(a, b)
            ins = [(a, rhos[i]), (b, orbs[i][:n])]
        else:
            pa, pb = prhos[i][c].copy(), porbs[i][c][:n].copy()
            f, d = g.get_features_and_occ_derivs(a, b, pa, pb)
            ins = [(a, rhos[i]), (b, orbs[i][:n]), (pa, prhos[i][c]), (pb, porbs[i][c][:n])]
        return [np.array(f, copy=True)] + ([] if d is None else [np.array(d, copy=True)]), ins

    for step, op in enumerate(hist["ops"]):
        stats["op_" + op["op"]] += 1
        dg.add(op["op"])
        try:
            if op["op"] == "setc":
                cur = op["c"]
                point(gen, cur)
                stats["coordinate_retargets"] += 1
                continue
            if op["op"] == "tfeat" or op.get("same_out"):
                # features on the generator's own grid need the interpolator pointed at it
                cur = "grid"
                point(gen, cur)
            elif cur is None or cur == "grid":
                cur = 0
                point(gen, cur)
            inj = for_op(op)
            with inj:
                got, ins = call(gen, op, cur)
        except Exception as ex:
            if op["op"] != "setc" and op.get("fault") and inj.fired:
                remember(op, inj)
                stats["calls_interrupted_by_injected_failure"] += 1
                stats["fault_site_" + inj.where] += 1
                continue
            V("call-raises:LCAONLDFGenerator.%s:%s" % (op["op"], type(ex).__name__), "step %d: %s" % (step, str(ex)[:200]))
            break
        for a, orig in ins:
            if not np.array_equal(a, orig):
                V("input-mutated:LCAONLDFGenerator.get_features_and_occ_derivs", "step %d" % step)
        if op["op"] == "occd":
            scribble(hist, stats, *[a for a, _ in ins])
        set_perturb(hist["perturb"] ^ 0x5A)
        g2 = W._make_nldfgen(p)[3]
        point(g2, cur)
        ref, _ = call(g2, op, cur)
        set_perturb(hist["perturb"])
        stats["reference_calls"] += 1
        if len(ref) != len(got):
            V("history_vs_fresh:LCAONLDFGenerator.%s:arity" % op["op"], "step %d" % step)
            continue
        for k, (x, y) in enumerate(zip(got, ref)):
            ok, why = close(x, y)
            stats["comparisons"] += 1
            if not ok:
                V("history_vs_fresh:LCAONLDFGenerator.%s:%s" % (op["op"], ["feat", "occd"][k]), "step %d (coords %s): %s" % (step, cur, why))
    return viol, stats, dg


def exec_sdmxgen_history(hist, rp):
    from ciderpress.pyscf.sdmx import EXXSphGenerator
    from cidersim import zoo

    p = hist["params"]
    viol = []
    stats = Counter()
    dg = Digest()

    def V(key, detail):
        viol.append({"key": key, "detail": detail, "replay": rp})

    set_perturb(hist["perturb"])
    rng = Rng(derive("omp-sdmx", p["sseed"]))
    st = zoo.make_settings(p["kind"], rng, normalizer=False)
    mol = zoo.make_mol(p["mol"], p["basis"])
    gen = EXXSphGenerator.from_settings_and_mol(st.sdmx_settings, p["nspin"], mol)
    nao = mol.nao_nr()
    nprng = np.random.default_rng(p["dseed"])
    pool = []
    for _ in range(3):
        a = nprng.normal(size=(p["nspin"], nao, nao))
        pool.append(np.einsum("sij,skj->sik", a, a) / nao)
    cpool = {}
    for step, op in enumerate(hist["ops"]):
        stats["op_featvxc"] += 1
        key = (op["ngrids"], op["cseed"])
        if key not in cpool:
            cpool[key] = np.random.default_rng(1000 * op["cseed"] + op["ngrids"]).normal(size=(op["ngrids"], 3)) * 1.5
        coords = cpool[key]
        if op["nset"] == 1:
            dms = pool[op["dm"]][0] if p["nspin"] == 1 else pool[op["dm"]]
        else:
            dms = np.concatenate([pool[op["dm"]], pool[(op["dm"] + 1) % 3]], axis=0)
        dms = np.array(dms, copy=True, order="C")
        dms_orig = dms.copy()
        b = adigest(dms, coords)
        inj = for_op(op)
        try:
            with inj:
                cao = gen.get_cao(mol, coords, save_buf=True) if op["save_buf"] else None
                f = gen.get_features(dms, mol, coords, cao=cao)
                vg = np.random.default_rng(7 + step).normal(size=f.shape)
                vm = np.zeros(dms.shape)
                gen.get_vxc_(vm, vg)
            if op["vxc_twice"]:
                vm2 = np.zeros(dms.shape)
                gen.get_vxc_(vm2, vg)
                ok, why = close(vm2, vm, 1e-13)
                if not ok:
                    V("repeat:EXXSphGenerator.get_vxc_:vmat", "step %d: second potential evaluation differs: %s" % (step, why))
        except Exception as ex:
            if inj.fired:
                remember(op, inj)
                # interrupted feature/potential pass: un-acknowledged; the generator lives on
                stats["calls_interrupted_by_injected_failure"] += 1
                stats["fault_site_" + inj.where] += 1
                continue
            V("call-raises:EXXSphGenerator:%s" % type(ex).__name__, "step %d: %s" % (step, str(ex)[:200]))
            break
        if adigest(dms, coords) != b:
            V("input-mutated:EXXSphGenerator.get_features:dm-or-coords", "step %d" % step)
        scribble(hist, stats, dms)
        # fresh generator, one call
        set_perturb(hist["perturb"] ^ 0x5A)
        g2 = EXXSphGenerator.from_settings_and_mol(st.sdmx_settings, p["nspin"], mol)
        f2 = g2.get_features(dms_orig.copy(), mol, coords.copy())
        vm_ref = np.zeros(dms.shape)
        g2.get_vxc_(vm_ref, vg.copy())
        set_perturb(hist["perturb"])
        stats["reference_calls"] += 1
        stats["comparisons"] += 2
        ok, why = close(f, f2)
        if not ok:
            V("history_vs_fresh:EXXSphGenerator.get_features:feat", "step %d (ngrids %d after %s): %s" % (step, op["ngrids"], [o["ngrids"] for o in hist["ops"][:step]], why))
        ok, why = close(vm, vm_ref)
        if not ok:
            V("history_vs_fresh:EXXSphGenerator.get_vxc_:vmat", "step %d: %s" % (step, why))
        if dms_orig.ndim == 3 and dms_orig.shape[0] > 1:
            # several matrices in one call = each of them in a call of its own (a fresh
            # generator asked with the same stack gives the same stack, right or wrong)
            set_perturb(hist["perturb"] ^ 0x5A)
            for idm in range(min(3, dms_orig.shape[0])):
                g3 = EXXSphGenerator.from_settings_and_mol(st.sdmx_settings, p["nspin"], mol)
                f3 = g3.get_features(np.array(dms_orig[idm], copy=True, order="C"), mol, coords.copy())
                vm3 = np.zeros(dms_orig.shape[1:])
                g3.get_vxc_(vm3, np.array(vg[idm], copy=True))
                stats["reference_calls"] += 1
                stats["comparisons"] += 2
                ok, why = close(np.asarray(f)[idm], np.asarray(f3).reshape(np.asarray(f)[idm].shape))
                if not ok:
                    V("batch_vs_single:EXXSphGenerator.get_features:feat:idm%d" % min(idm, 1), "step %d matrix %d of %d: %s" % (step, idm, dms_orig.shape[0], why))
                ok, why = close(vm[idm], vm3)
                if not ok:
                    V("batch_vs_single:EXXSphGenerator.get_vxc_:vmat:idm%d" % min(idm, 1), "step %d matrix %d of %d: %s" % (step, idm, dms_orig.shape[0], why))
            set_perturb(hist["perturb"])
        dg.add(op["ngrids"], op["nset"])
    return viol, stats, dg


# ---------------------------------------------------------------------------------
# Kohn-Sham-object histories: the decorated PySCF object is kept across molecules
# (geometry scan / reset), grid-level changes and SCF runs, as a user script does
# ---------------------------------------------------------------------------------
def gen_ks_history(seed):
    rng = Rng(derive("c09-ks", seed))
    s, ev, mode, ver = rng.choice(NI_MODELS)
    model = {"settings": s, "ev": ev, "mode": mode, "version": ver, "seed": rng.below(10**6), "plan_type": rng.choice(["gaussian", "spline"]), "interp": rng.choice(["onsite_direct", "onsite_spline"]), "xmix": rng.choice([1.0, 0.5]), "zero_d": bool(rng.chance(0.3))}
    uks = bool(rng.chance(0.4))
    names = ["H2", "HeH+", "LiH", "H2O"] if not uks else ["H2", "OH", "O", "H", "LiH"]
    nmol = rng.randint(2, 3)
    mols = []
    for _ in range(nmol):
        if mols and rng.chance(0.4):
            d = dict(mols[rng.below(len(mols))])
            d["shift"] = [rng.uniform(-0.2, 0.2) for _ in range(3)]
            mols.append(d)
        else:
            mols.append({"name": rng.choice(names), "basis": "sto-3g", "dseed": rng.below(10**6)})
    ops = []
    cur = 0
    models = [model]
    if rng.chance(0.35):
        # a second functional of the same family (another training run: other parameters, same
        # number of features), put on the same Kohn-Sham object with set_mlxc
        models.append(dict(model, seed=rng.below(10**6)))
    for _ in range(rng.randint(3, 7)):
        c = rng.weighted([("veff", 5), ("scf", 2), ("reset", 4), ("level", 1), ("displace", 2), ("grad", 2), ("analyze", 2), ("agrid", 2)] + ([("swap", 4)] if len(models) > 1 else []))
        if c == "agrid":
            # the per-element grid table of the object's grids is edited IN PLACE (an item of the
            # dictionary the grids object already holds - PySCF's default is a dictionary), then
            # the object is reset, as PySCF asks for after such an edit
            ops.append({"op": "agrid", "atom": rng.below(3), "val": [rng.choice([20, 30, 40]), rng.choice([50, 86, 110])]})
            if rng.chance(0.7):
                ops.append({"op": "veff", "dm": rng.below(3)})
        elif c == "swap":
            # the caller may or may not hand over initializer objects with the new functional
            ops.append({"op": "swap", "to": rng.below(2), "explicit_init": bool(rng.chance(0.4))})
            if rng.chance(0.7):
                ops.append({"op": "veff", "dm": rng.below(3)})
        elif c == "analyze":
            # post-processing between uses of one Kohn-Sham object: an SCF run, then the package's
            # ElectronAnalyzer.from_calc on it - with another grid level it re-evaluates the energy on
            # the calculator's own grids object rebuilt in place and restores the level afterwards
            # ("should leave calc almost the same as it started"); the object is then used again
            ops.append({"op": "analyze", "cycles": 1, "dm": rng.below(3), "alevel": rng.choice([None, 0, 1, 1])})
            if rng.chance(0.3):
                # the energy evaluation on the temporary grids is interrupted (the other level is
                # usually the larger one: an allocation fails, or the user gives up) at a seeded
                # line inside it; un-acknowledged, the Kohn-Sham object is used again afterwards.
                # (Only that evaluation is interrupted, never the code that puts the object back:
                # no clean-up can be demanded to survive its own interruption.)
                ops[-1]["fault"] = draw_fault(rng)
            if rng.chance(0.7):
                ops.append({"op": "veff", "dm": rng.below(3)})
        elif c == "displace":
            # geometry step of a scan: the SAME Mole object is moved in place, then reset(mol)
            ops.append({"op": "displace", "delta": [[rng.uniform(-0.25, 0.25) for _ in range(3)] for _ in range(4)]})
        elif c == "reset":
            cur = rng.below(nmol)
            ops.append({"op": "reset", "mol": cur})
        elif c == "level":
            ops.append({"op": "level", "level": rng.choice([0, 1])})
        elif c == "veff":
            ops.append({"op": "veff", "dm": rng.below(3)})
        elif c == "grad":
            # geometry optimisation: an SCF run followed by analytic forces on the same
            # object; the force code shares the calculator's feature generators
            ops.append({"op": "grad", "cycles": 1, "dm": rng.below(3), "grid_response": bool(rng.chance(0.4))})
        else:
            ops.append({"op": "scf", "cycles": rng.choice([1, 2]), "dm": rng.below(3)})
    return {"kind": "ks", "models": models, "mols": mols, "grids": [{"level": 0}], "uks": uks, "ops": ops, "perturb": rng.choice(PERTURBS)}


def exec_ks_history(hist, rp):
    import copy

    hist = copy.deepcopy(hist)  # geometry steps update the local molecule descriptions
    U = Universe(hist)
    viol = []
    stats = Counter()
    dg = Digest()

    def V(key, detail):
        viol.append({"key": key, "detail": detail, "replay": rp})

    uks = hist["uks"]
    mdesc = hist["models"][0]
    curm = 0  # the functional the long-lived object currently carries

    def scf_run(ks, cycles, dm0):
        # the starting density is always given explicitly: PySCF itself restarts kernel()
        # from the wave function of the previous run of the same object (by design)
        ks.max_cycle = cycles
        ks.conv_tol = 1e-14
        ks.conv_check = False
        ks.verbose = 0
        ks.kernel(dm0=dm0)
        return float(ks.e_tot), np.array(ks.make_rdm1(), copy=True)

    def do(ks, mol, op, k, inject=False):
        if op["op"] == "veff":
            dm = np.array(U.dm(k, 2 if uks else 1, op["dm"]), copy=True)
            b = adigest(dm)
            v = ks.get_veff(mol, dm)
            return {"veff": np.array(v, copy=True), "exc": float(v.exc), "ecoul": float(v.ecoul)}, adigest(dm) == b
        dm0 = np.array(U.dm(k, 2 if uks else 1, op.get("dm", 0)), copy=True)
        e, dm = scf_run(ks, op["cycles"], dm0)
        if op["op"] == "analyze":
            from ciderpress.pyscf.analyzers import ElectronAnalyzer

            inj = for_op(op if inject else {})
            orig_etot = ks.energy_tot

            def etot_interrupted(*a, **kw):
                with inj:
                    return orig_etot(*a, **kw)

            if inject and op.get("fault"):
                ks.energy_tot = etot_interrupted  # (instance attribute: removed again below)
            try:
                an = ElectronAnalyzer.from_calc(ks, grids_level=op.get("alevel"))
            finally:
                ks.__dict__.pop("energy_tot", None)
                mol.verbose = 0  # (the analyzer sets the verbosity of the molecule it is given)
                if inj.fired:
                    remember(op, inj)
                    stats["analyses_interrupted_by_injected_failure"] += 1
                    stats["fault_site_" + inj.where] += 1
            stats["analyzer_other_level" if op.get("alevel") not in (None, level) else "analyzer_same_level"] += 1
            return {"e_tot": e, "dm": dm, "exc_orig": float(an.get("exc_orig")), "e_tot_orig": float(an.get("e_tot_orig"))}, True
        if op["op"] == "grad":
            g = ks.nuc_grad_method()
            g.verbose = 0
            g.grid_response = bool(op.get("grid_response"))
            de = np.array(g.kernel(), copy=True)
            return {"e_tot": e, "dm": dm, "de": de}, True
        return {"e_tot": e, "dm": dm}, True

    set_perturb(hist["perturb"])
    level = 0
    cur = 0
    agrid = {}  # per-element grid sizes the user has put into the object's table so far
    model = U.model(0)
    ks = make_ks(model, U.mol(0), uks, {"level": 0}, mdesc)
    ks.build()
    site = type(ks._numint).__name__ + ("/UKS" if uks else "/RKS")
    for step, op in enumerate(hist["ops"]):
        c = op["op"]
        stats["op_ks_" + c] += 1
        dg.add(c)
        try:
            if c == "reset":
                cur = op["mol"]
                ks.reset(U.mol(cur))
                stats["ks_resets"] += 1
                continue
            if c == "level":
                level = op["level"]
                ks.grids.level = level
                ks.reset(U.mol(cur))
                continue
            if c == "agrid":
                m_ = U.mol(cur)
                sym = m_.atom_symbol(op["atom"] % m_.natm)
                if not isinstance(ks.grids.atom_grid, dict):
                    ks.grids.atom_grid = {}
                ks.grids.atom_grid[sym] = (int(op["val"][0]), int(op["val"][1]))  # in place
                agrid[sym] = [int(op["val"][0]), int(op["val"][1])]
                ks.reset(m_)
                stats["grid_tables_edited_in_place_then_reset"] += 1
                continue
            if c == "swap":
                # another functional on the same Kohn-Sham object (public set_mlxc), with or
                # without initializer objects of the caller's; later requests are answered
                # like those of a fresh object made for that functional in the same way
                curm = op["to"] % len(hist["models"])
                mdesc = dict(hist["models"][curm], no_init=not op.get("explicit_init"))
                ni_, si_, _kw = make_inits(U.model(curm), mdesc)
                ks.set_mlxc(U.model(curm), xmix=mdesc.get("xmix", 0.5), nldf_init=ni_, sdmx_init=si_, rhocut=mdesc.get("rhocut"))
                ks.grids.verbose = 0
                ks.build()
                stats["functional_swaps_on_one_ks_object"] += 1
                stats["functional_swaps_without_initializers"] += int(not op.get("explicit_init"))
                continue
            if c == "displace":
                m = U.mol(cur)
                xyz = m.atom_coords(unit="Bohr") + np.asarray(op["delta"])[: m.natm]
                m.set_geom_(xyz, unit="Bohr")  # in place, as PySCF's geometry scanners do
                m.verbose = 0
                # fresh references and density matrices must see the new geometry
                hist["mols"][cur] = dict(hist["mols"][cur], abs_coords=xyz.tolist())
                for key in [k for k in U._dms if k[0] == cur]:
                    del U._dms[key]
                ks.reset(m)
                stats["in_place_displacements"] += 1
                continue
            got, inputs_ok = do(ks, U.mol(cur), op, cur, inject=True)
        except (InjectedFault, CallInterrupted):
            # un-acknowledged: nothing is demanded of the interrupted request itself; the object
            # lives on with the configuration its user gave it
            continue
        except Exception as ex:
            import traceback

            tb = traceback.extract_tb(ex.__traceback__)
            # a request that fresh objects reject in the same way is not a history effect
            ref_exc = None
            if c in ("veff", "scf", "grad", "analyze"):
                try:
                    set_perturb(hist["perturb"] ^ 0x5A)
                    mol_f = U.mol(cur, fresh=True)
                    ks_f = make_ks(U.fresh_model(curm), mol_f, uks, {"level": level, "atom_grid_dict": dict(agrid)}, mdesc)
                    ks_f.build()
                    do(ks_f, mol_f, op, cur)
                except Exception as ex2:
                    ref_exc = type(ex2).__name__
                finally:
                    set_perturb(hist["perturb"])
            # (narrow: only the documented input rejection "NLDF exponent is too large")
            if ref_exc == type(ex).__name__ and isinstance(ex, RuntimeError) and "exponent is too large" in str(ex):
                stats["rejected_by_fresh_objects_too"] += 1
                break
            if ref_exc == type(ex).__name__ and hist.get("fd_dm") and op.get("dm", 0) == 1:
                stats["displaced_matrix_refused_by_fresh_objects_too"] += 1
                break
            # forces are documented as unsupported for some feature families: the same
            # NotImplementedError from fresh objects is a rejection; the history goes on
            # with the same object (a rejected request must not damage it)
            if c == "grad" and isinstance(ex, NotImplementedError) and ref_exc == "NotImplementedError":
                stats["grad_not_implemented_on_both"] += 1
                continue
            V("call-raises:ks.%s:%s:%s" % (c, type(ex).__name__, tb[-1].name if tb else "?"), "step %d: %s" % (step, str(ex)[:200]))
            break
        if not inputs_ok:
            V("input-mutated:ks.get_veff:dm", "step %d" % step)
        # fresh objects for the same request
        set_perturb(hist["perturb"] ^ 0x5A)
        mol_f = U.mol(cur, fresh=True)
        ks_f = make_ks(U.fresh_model(curm), mol_f, uks, {"level": level, "atom_grid_dict": dict(agrid)}, mdesc)
        ks_f.build()
        ref, _ = do(ks_f, mol_f, op, cur)
        set_perturb(hist["perturb"])
        stats["reference_calls"] += 1
        for name in sorted(ref):
            ok, why = close(got[name], ref[name], 1e-9 if c in ("scf", "grad", "analyze") else RTOL)
            stats["comparisons"] += 1
            if not ok:
                V("history_vs_fresh:ks.%s:%s:%s" % (c, name, site), "step %d (%s, mol %s after %s): %s" % (step, mdesc["settings"], hist["mols"][cur]["name"], [o["op"] for o in hist["ops"][:step]][-4:], why))
    # (this engine works on a copy of the history: the fault sites that fired go into the
    # history of the replay file, so that a replay in another process fails at the same place)
    try:
        for o_src, o_dst in zip(hist["ops"], rp["case"]["hist"]["ops"]):
            if o_src.get("fault_site") and not o_dst.get("fault_site"):
                o_dst["fault_site"] = o_src["fault_site"]
    except (KeyError, TypeError):
        pass
    return viol, stats, dg


# ---------------------------------------------------------------------------------
# analyzer histories (one ElectronAnalyzer asked for several functionals, grids, quantities)
# ---------------------------------------------------------------------------------
AN_XC = ["PBE", "LDA,VWN", "SCAN", "B88,LYP", "TPSS"]


def gen_an_history(seed):
    rng = Rng(derive("c09-an", seed))
    uks = bool(rng.chance(0.35))
    name = rng.choice(["H2", "LiH", "H2O", "HeH+"] if not uks else ["OH", "O", "LiH"])
    ops = []
    for _ in range(rng.randint(3, 7)):
        # (orbital values without an orbital dictionary are rejected for unrestricted analyzers -
        # an einsum over a 3-index coefficient array -, also by fresh objects: not generated)
        c = rng.weighted([("vxc", 6), ("on_mo", 0 if uks else 3), ("xc_energy", 2), ("rho", 1)])
        op = {"op": c, "xc": rng.choice(AN_XC)}
        if c == "vxc":
            op["grids"] = rng.choice([None, None, 0, 2])
            if rng.chance(0.3):
                # a functional that is not in libxc, handed over as a function under a label
                # (the label must itself be a libxc name: the helper object parses it)
                op["custom"] = rng.choice([0.5, 0.25])
        if c == "rho":
            op["overwrite"] = bool(rng.chance(0.5))
        ops.append(op)
    return {"kind": "an", "models": [], "mols": [{"name": name, "basis": "sto-3g", "dseed": rng.below(10**6)}], "grids": [{"level": 1}], "uks": uks, "ops": ops, "perturb": rng.choice(PERTURBS)}


def _custom_xc(factor):
    from pyscf import dft

    def eval_xc(xc_code, rho, spin=0, relativity=0, deriv=1, omega=None, verbose=None):
        exc, vxc, fxc, kxc = dft.libxc.eval_xc("PBE", rho, spin, relativity, deriv, omega, verbose)
        return exc * factor, tuple(None if v is None else v * factor for v in vxc), None, None

    return eval_xc


def exec_an_history(hist, rp):
    from pyscf import dft, scf

    from ciderpress.pyscf.analyzers import RHFAnalyzer, UHFAnalyzer

    U = Universe(hist)
    viol = []
    stats = Counter()
    dg = Digest()
    uks = hist["uks"]

    def V(key, detail):
        viol.append({"key": key, "detail": detail, "replay": rp})

    def new_analyzer():
        mol = U.mol(0, fresh=True)
        mf = (scf.UHF if uks else scf.RHF)(mol)
        mf.verbose = 0
        mf.max_cycle = 1
        mf.conv_check = False
        mf.kernel()
        an = (UHFAnalyzer if uks else RHFAnalyzer)(mol, np.array(mf.make_rdm1(), copy=True), grids_level=1, mo_occ=mf.mo_occ, mo_coeff=mf.mo_coeff, mo_energy=mf.mo_energy)
        mol.verbose = 0
        return an

    def do(an, op):
        c = op["op"]
        if c == "vxc":
            kw = {}
            if op.get("grids") is not None:
                g = dft.gen_grid.Grids(an.mol)
                g.level = op["grids"]
                g.verbose = 0
                g.build()
                kw["grids"] = g
            if op.get("custom"):
                kw["xcfunc"] = _custom_xc(op["custom"])
                kw["xctype"] = "GGA"
            v = an.calculate_vxc(op["xc"], **kw)
            return {"vxc": np.array(v, copy=True), "exc": float(an.get("EXC_" + op["xc"]))}
        if c == "on_mo":
            return {"orbxc": np.array(an.calculate_vxc_on_mo(op["xc"]), copy=True)}
        if c == "xc_energy":
            return {"exc": float(an.get_xc_energy(op["xc"])), "stored": float(an.get_xc(op["xc"]))}
        return {"rho": np.array(an.get_rho_data(overwrite=op.get("overwrite", False)), copy=True)}

    set_perturb(hist["perturb"])
    an = new_analyzer()
    dm_before = adigest(an.dm)
    last_vxc = {}
    for step, op in enumerate(hist["ops"]):
        c = op["op"]
        stats["op_an_" + c] += 1
        dg.add(c, op.get("xc"))
        try:
            got = do(an, op)
        except Exception as ex:
            V("call-raises:analyzer.%s:%s" % (c, type(ex).__name__), "step %d: %s" % (step, str(ex)[:200]))
            break
        # fresh analyzer for the same request; a request for orbital values documents that it
        # uses the potential stored under that name, so the reference computes that one first
        set_perturb(hist["perturb"] ^ 0x5A)
        an_f = new_analyzer()
        if c == "on_mo" and op["xc"] in last_vxc:
            do(an_f, last_vxc[op["xc"]])
        ref = do(an_f, op)
        set_perturb(hist["perturb"])
        stats["reference_calls"] += 1
        if c == "vxc":
            last_vxc[op["xc"]] = op
        elif c == "on_mo" and op["xc"] not in last_vxc:
            last_vxc[op["xc"]] = {"op": "vxc", "xc": op["xc"]}
        for name in sorted(ref):
            ok, why = close(got[name], ref[name])
            stats["comparisons"] += 1
            if not ok:
                V("history_vs_fresh:analyzer.%s:%s" % (c, name), "step %d (%s after %s): %s" % (step, op.get("xc"), [o["op"] + ":" + str(o.get("xc")) for o in hist["ops"][:step]][-4:], why))
        if adigest(an.dm) != dm_before:
            V("input-mutated:analyzer.%s:dm" % c, "step %d" % step)
            dm_before = adigest(an.dm)
    return viol, stats, dg


# ---------------------------------------------------------------------------------
# plan-level histories (NLDF plans cache interpolation tensors and l=1 vectors per spin)
# ---------------------------------------------------------------------------------
def gen_slplan_history(seed):
    rng = Rng(derive("c09-slplan", seed))
    ops = []
    for _ in range(rng.randint(3, 8)):
        if rng.chance(0.5):
            ops.append({"op": "feat", "rho": rng.below(3)})
        else:
            ops.append({"op": "vxc", "rho": rng.below(3), "v": rng.below(3), "into": bool(rng.chance(0.3))})
    return {"kind": "slplan", "mode": rng.choice(["npa", "nst", "np", "ns"]), "nspin": rng.choice([1, 2]), "n": rng.choice([1, 7, 64, 200]), "dseed": rng.below(10**6), "ops": ops, "perturb": rng.choice(PERTURBS)}


def exec_slplan_history(hist, rp):
    from ciderpress.dft.plans import SemilocalPlan
    from ciderpress.dft.settings import SemilocalSettings
    from cidersim.workloads import omp_workloads as W

    viol = []
    stats = Counter()
    dg = Digest()

    def V(key, detail):
        viol.append({"key": key, "detail": detail, "replay": rp})

    set_perturb(hist["perturb"])
    st = SemilocalSettings(hist["mode"])
    nspin, n = hist["nspin"], hist["n"]
    plan = SemilocalPlan(st, nspin)
    nprng = np.random.default_rng(hist["dseed"])
    nrho = 5 if st.level == "MGGA" else 4
    rhos = [np.stack([W._rho_data(nprng, 5, n)[:nrho] for _ in range(nspin)]) for _ in range(3)]
    vfs = [nprng.normal(size=(nspin, st.nfeat, n)) for _ in range(3)]
    near_dup(hist, rhos, stats)
    near_dup(hist, vfs, stats, seed=1)
    for step, op in enumerate(hist["ops"]):
        stats["op_slplan_" + op["op"]] += 1
        dg.add(op["op"], op["rho"])
        try:
            fresh = SemilocalPlan(SemilocalSettings(hist["mode"]), nspin)
            r_in = rhos[op["rho"]].copy()
            if op["op"] == "feat":
                b = adigest(r_in)
                got = plan.get_feat(r_in)
                same = adigest(r_in) == b
                ref = fresh.get_feat(rhos[op["rho"]].copy())
                name = "feat"
            else:
                v_in = vfs[op["v"]].copy()
                b = adigest(r_in, v_in)
                if op["into"]:
                    buf = np.full((nspin, 5, n), 0.25)
                    got = plan.get_vxc(r_in, v_in, vxc=buf)
                    ref = fresh.get_vxc(rhos[op["rho"]].copy(), vfs[op["v"]].copy(), vxc=np.full((nspin, 5, n), 0.25))
                else:
                    got = plan.get_vxc(r_in, v_in)
                    ref = fresh.get_vxc(rhos[op["rho"]].copy(), vfs[op["v"]].copy())
                same = adigest(r_in, v_in) == b
                name = "vxc"
            if not same:
                V("input-mutated:SemilocalPlan.get_%s:rho-or-vfeat" % name, "step %d" % step)
            scribble(hist, stats, r_in, *([v_in] if op["op"] != "feat" else []))
            ok, why = close(got, ref, 1e-13)
            stats["comparisons"] += 1
            stats["reference_calls"] += 1
            if not ok:
                V("history_vs_fresh:SemilocalPlan.get_%s:%s" % (name, hist["mode"]), "step %d after %s: %s" % (step, [o["op"] for o in hist["ops"][:step]][-3:], why))
        except Exception as ex:
            V("call-raises:SemilocalPlan.%s:%s" % (op["op"], type(ex).__name__), "step %d: %s" % (step, str(ex)[:200]))
            break
    return viol, stats, dg


def gen_plan_history(seed):
    from cidersim.workloads import omp_workloads as W

    if seed % 3 == 0:
        return gen_slplan_history(seed)
    rng = Rng(derive("c09-plan", seed))
    p = W.draw_plan_params(rng)
    p["nspin"] = rng.choice([1, 2, 2])
    p["smooth"] = False
    # fewer grid points than interpolation exponents makes eval_vxc_vj_ raise (it takes nalpha
    # from the grid axis; harmless when ngrids >= nalpha, as in every real block): not generated
    p["n"] = rng.choice([22, 33, 64, 100, 257])
    ops = []
    have = set()
    nobj = rng.weighted([(1, 3), (2, 2)])  # several plan objects of the same settings alive at once
    for _ in range(rng.randint(3, 9)):
        s = rng.below(p["nspin"])
        if rng.chance(0.25):
            # the plans' public coefficient API, as the generators and the GPAW driver call it
            ops.append({"op": "coef", "spin": s, "what": rng.choice(["a2q", "a2q", "interp"]), "i": rng.choice([-1, 0]), "fwd": bool(rng.chance(0.5)), "inplace": bool(rng.chance(0.3)), "x": rng.below(3), "twice": bool(rng.chance(0.5)), "alias": rng.choice([None, None, "readonly"]), "obj": rng.below(nobj)})
            continue
        if rng.chance(0.2):
            # the integrators hand the plan one block of grid points at a time: a sub-range of the
            # samples (of any length, e.g. as many points as interpolation exponents, or one)
            ln = rng.choice([p["nalpha"], p["nalpha"], 1, 7, p["n"] // 2, p["nalpha"] + 1])
            ln = max(1, min(ln, p["n"]))
            a = rng.below(p["n"] - ln + 1)
            ops.append({"op": "rho_blk", "spin": s, "f": rng.below(3), "rho": rng.below(3), "a": a, "b": a + ln, "obj": rng.below(nobj)})
            have.discard(s)
            continue
        if s in have and rng.chance(0.5):
            ops.append({"op": "vxc", "spin": s, "v": rng.below(3), "obj": rng.below(nobj)})
        else:
            ops.append({"op": "rho", "spin": s, "f": rng.below(3), "rho": rng.below(3), "cache_p": bool(rng.chance(0.85)), "obj": rng.below(nobj)})
            have.add(s)
        if rng.chance(0.1):
            ops[-1]["fault"] = draw_fault(rng, 120)
            if ops[-1]["op"] == "rho":
                have.discard(s)
    return {"kind": "plan", "params": p, "ops": ops, "nobj": nobj, "perturb": rng.choice(PERTURBS)}


def exec_plan_history(hist, rp):
    from ciderpress.dft.plans import NLDFGaussianPlan, NLDFSplinePlan
    from cidersim import zoo
    from cidersim.workloads import omp_workloads as W

    p = hist["params"]
    viol = []
    stats = Counter()
    dg = Digest()

    def V(key, detail):
        viol.append({"key": key, "detail": detail, "replay": rp})

    set_perturb(hist["perturb"])
    rng = Rng(derive("omp-plan", p["sseed"]))
    st = zoo.make_settings(p["kind"], rng, normalizer=False)
    nl = st.nldf_settings
    cls = NLDFGaussianPlan if p["plan_type"] == "gaussian" else NLDFSplinePlan

    def make_plan():
        alpha0 = nl.theta_params[0] / 64
        lambd = float((3e4 / alpha0) ** (1.0 / (p["nalpha"] - 1)))
        return cls(nl, p["nspin"], alpha0, lambd, p["nalpha"], coef_order=p["order"], alpha_formula=p["formula"])

    plans = [make_plan() for _ in range(int(hist.get("nobj", 1)))]
    plan = plans[0]
    n = p["n"]
    nrho = 5 if nl.sl_level == "MGGA" else 4
    nprng = np.random.default_rng(p["dseed"])
    rhos = [W._rho_data(nprng, nrho, n) for _ in range(3)]
    shape = plan.zero_coefs_full(n).shape
    fs = [nprng.normal(size=shape) for _ in range(3)]
    vfs = [nprng.normal(size=(nl.nfeat, n)) for _ in range(3)]
    near_dup(hist, rhos, stats)
    near_dup(hist, fs, stats, seed=1)
    near_dup(hist, vfs, stats, seed=2)
    site = type(plan).__name__
    fresh = {}

    def ref_rho(i, j, s):
        k = ("r", i, j, s)
        if k not in fresh:
            set_perturb(hist["perturb"] ^ 0x5A)
            pl = make_plan()
            feat, dfeat = pl.eval_rho_full(fs[i].copy(), rhos[j].copy(), spin=s)
            fresh[k] = (np.array(feat, copy=True), np.array(dfeat, copy=True))
            set_perturb(hist["perturb"])
            stats["reference_calls"] += 1
        return fresh[k]

    def ref_vxc(i, j, kv, s):
        k = ("v", i, j, kv, s)
        if k not in fresh:
            set_perturb(hist["perturb"] ^ 0x5A)
            pl = make_plan()
            feat, dfeat = pl.eval_rho_full(fs[i].copy(), rhos[j].copy(), spin=s)
            vrho = np.zeros_like(rhos[j])
            vf = pl.eval_vxc_full(vfs[kv].copy(), vrho, dfeat, rhos[j].copy(), spin=s)
            fresh[k] = (np.array(vf, copy=True), np.array(vrho, copy=True))
            set_perturb(hist["perturb"])
            stats["reference_calls"] += 1
        return fresh[k]

    last = {}
    for step, op in enumerate(hist["ops"]):
        s = op["spin"]
        oi = op.get("obj", 0) % len(plans)
        plan = plans[oi]
        sk = (oi, s)
        stats["ops_on_second_live_object"] += int(oi > 0)
        stats["op_plan_" + op["op"]] += 1
        dg.add(op["op"], s)
        try:
            if op["op"] == "coef":
                set_perturb(hist["perturb"] ^ 0x5A)
                fresh_plan = make_plan()
                set_perturb(hist["perturb"])
                nq = p["nalpha"]
                r3 = np.random.default_rng(900 + op["x"])
                if op["what"] == "a2q":
                    x0 = r3.normal(size=(nq, 9) if p["order"] == "qg" else (9, nq))

                    def run(pl, arr):
                        return pl.get_transformed_interpolation_terms(arr, i=op["i"], fwd=op["fwd"], inplace=op["inplace"])

                else:
                    try:
                        rt = fresh_plan.get_rho_tuple(rhos[op["x"]].copy())
                        x0 = np.array(fresh_plan.get_interpolation_arguments(rt, i=op["i"])[0], copy=True)
                    except Exception:
                        stats["coef_requests_rejected_by_fresh_plan"] += 1
                        continue

                    def run(pl, arr):
                        c_, dc_ = pl.get_interpolation_coefficients(arr, i=op["i"])
                        return np.concatenate([np.ravel(c_), np.ravel(dc_)])

                try:
                    want = np.array(run(fresh_plan, x0.copy()), copy=True)
                except Exception:
                    stats["coef_requests_rejected_by_fresh_plan"] += 1
                    continue  # not a supported request for these settings (fresh plans reject it too)
                arr = x0.copy()
                if op["alias"] == "readonly" and not (op["what"] == "a2q" and op["inplace"]):
                    arr.setflags(write=False)
                got = np.array(run(plan, arr), copy=True)
                if not (op["what"] == "a2q" and op["inplace"]) and not np.array_equal(arr, x0):
                    V("input-mutated:%s.%s:argument" % (site, "get_transformed_interpolation_terms" if op["what"] == "a2q" else "get_interpolation_coefficients"), "step %d: i=%d fwd=%s order=%s (max change %.3g)" % (step, op["i"], op["fwd"], p["order"], float(np.abs(arr - x0).max())))
                ok, why = close(got, want)
                stats["comparisons"] += 1
                if not ok:
                    V("history_vs_fresh:%s.coef:%s" % (site, op["what"]), "step %d: %s" % (step, why))
                if op["twice"] and not (op["what"] == "a2q" and op["inplace"]):
                    got2 = np.array(run(plan, arr), copy=True)  # the same array object again
                    ok, why = close(got2, want)
                    stats["comparisons"] += 1
                    if not ok:
                        V("repeat:%s.coef:%s" % (site, op["what"]), "step %d: second call with the same array differs: %s" % (step, why))
                continue
            if op["op"] == "rho_blk":
                a_, b_ = op["a"], op["b"]
                gax = [ax for ax, d in enumerate(shape) if d == n and plan.zero_coefs_full(n + 1).shape[ax] == n + 1]
                if len(gax) != 1:
                    continue
                sl = [slice(None)] * len(shape)
                sl[gax[0]] = slice(a_, b_)
                f_in = np.ascontiguousarray(fs[op["f"]][tuple(sl)])
                r_in = np.ascontiguousarray(rhos[op["rho"]][:, a_:b_])
                feat, dfeat = plan.eval_rho_full(f_in, r_in, spin=s, cache_p=True)
                feat, dfeat = np.array(feat, copy=True), np.array(dfeat, copy=True)
                last.pop(sk, None)
                rf, rd = ref_rho(op["f"], op["rho"], s)
                stats["plan_calls_on_a_block_of_samples"] += 1
                stats["plan_block_length_equals_nalpha"] += int(b_ - a_ == p["nalpha"])
                for name, got, want in (("feat", feat, rf), ("dfeat", dfeat, rd)):
                    if want.shape[-1] != n or got.shape[-1] != b_ - a_:
                        continue
                    ok, why = close(got, want[..., a_:b_])
                    stats["comparisons"] += 1
                    if not ok:
                        V("block_vs_whole:%s.eval_rho_full:%s:spin%d" % (site, name, s), "step %d: samples %d..%d evaluated alone differ from the same samples inside the whole set: %s" % (step, a_, b_, why))
                continue
            if op["op"] == "rho":
                f_in, r_in = fs[op["f"]].copy(), rhos[op["rho"]].copy()
                b = adigest(f_in, r_in)
                inj = for_op(op)
                try:
                    with inj:
                        feat, dfeat = plan.eval_rho_full(f_in, r_in, spin=s, cache_p=op["cache_p"])
                except Exception:
                    if not inj.fired:
                        raise
                    remember(op, inj)
                    stats["calls_interrupted_by_injected_failure"] += 1
                    stats["fault_site_" + inj.where] += 1
                    last.pop(sk, None)  # no feature pass to build a potential from
                    continue
                if adigest(f_in, r_in) != b:
                    V("input-mutated:%s.eval_rho_full:f-or-rho" % site, "step %d" % step)
                feat, dfeat = np.array(feat, copy=True), np.array(dfeat, copy=True)
                scribble(hist, stats, f_in, r_in)
                rf, rd = ref_rho(op["f"], op["rho"], s)
                for name, a, c in (("feat", feat, rf), ("dfeat", dfeat, rd)):
                    ok, why = close(a, c)
                    stats["comparisons"] += 1
                    if not ok:
                        V("history_vs_fresh:%s.eval_rho_full:%s:spin%d" % (site, name, s), "step %d: %s" % (step, why))
                last[sk] = (op["f"], op["rho"], np.array(dfeat, copy=True), op["cache_p"])
            else:
                if sk not in last or not last[sk][3]:
                    continue
                i, j, dfeat, _ = last[sk]
                v_in, r_in = vfs[op["v"]].copy(), rhos[j].copy()
                b = adigest(v_in, r_in, dfeat)
                vrho = np.zeros_like(r_in)
                inj = for_op(op)
                try:
                    with inj:
                        vf = plan.eval_vxc_full(v_in, vrho, dfeat, r_in, spin=s)
                except Exception:
                    if not inj.fired:
                        raise
                    remember(op, inj)
                    stats["calls_interrupted_by_injected_failure"] += 1
                    stats["fault_site_" + inj.where] += 1
                    continue
                if adigest(v_in, r_in, dfeat) != b:
                    V("input-mutated:%s.eval_vxc_full:vfeat-dfeat-or-rho" % site, "step %d" % step)
                vf, vrho = np.array(vf, copy=True), np.array(vrho, copy=True)
                scribble(hist, stats, v_in, r_in)
                rvf, rvr = ref_vxc(i, j, op["v"], s)
                for name, a, c in (("vf", vf, rvf), ("vrho", vrho, rvr)):
                    ok, why = close(a, c)
                    stats["comparisons"] += 1
                    if not ok:
                        V("history_vs_fresh:%s.eval_vxc_full:%s:spin%d" % (site, name, s), "step %d: %s" % (step, why))
        except Exception as ex:
            V("call-raises:%s.%s:%s" % (site, op["op"], type(ex).__name__), "step %d: %s" % (step, str(ex)[:200]))
            break
    return viol, stats, dg


# ---------------------------------------------------------------------------------
# evaluator-level histories (chunking, accumulation, repetition)
# ---------------------------------------------------------------------------------
def gen_eval_history(seed):
    rng = Rng(derive("c09-eval", seed))
    s, ev, mode, ver = rng.choice(NI_MODELS)
    ev = rng.choice(["kernel", "rbf", "spline", "kernel+rbf", "spline+kernel", "rbf+linear"]) if mode != "POL" else "rbf"
    m = {"settings": s, "ev": ev, "mode": mode, "version": ver, "seed": rng.below(10**6)}
    ops = []
    for _ in range(rng.randint(2, 6)):
        ops.append({"op": "eval", "n": rng.choice([1, 7, 1999, 2000, 2001, 4001, 333]), "nspin": rng.choice([1, 2]), "rhocut": rng.choice([0.0, 1e-9]), "split": rng.choice([None, None, 2, 3, 1000, "pairs"]), "pseed": rng.below(4)})
        if rng.chance(0.1):
            ops[-1]["fault"] = draw_fault(rng, 150)
    return {"kind": "eval", "models": [m], "ops": ops, "perturb": rng.choice(PERTURBS)}


def _eval_model(m, X0TN, rho_tuple, rhocut):
    from ciderpress.dft.xc_evaluator2 import MappedXC2

    if isinstance(m, MappedXC2):
        res, dres, vt = m(X0TN, rho_tuple, rhocut=rhocut)
        return [res, dres] + list(vt)
    res, dres = m(X0TN, rhocut=rhocut)
    return [res, dres]


def exec_eval_history(hist, rp):
    from ciderpress.dft.plans import get_rho_tuple_with_grad_cross
    from cidersim import zoo

    U = Universe(hist)
    viol = []
    stats = Counter()
    dg = Digest()

    def V(key, detail):
        viol.append({"key": key, "detail": detail, "replay": rp})

    set_perturb(hist["perturb"])
    m = U.model(0)
    st = m.settings
    site = type(m).__name__ + ".__call__"
    for step, op in enumerate(hist["ops"]):
        stats["op_eval"] += 1
        n, nspin = op["n"], op["nspin"]
        X0T = zoo.probe_features(st, nspin, n, Rng(derive("c09-probe", op["pseed"], n, nspin)))
        with np.errstate(all="ignore"):
            X0TN = st.normalizers.get_normalized_feature_vector(X0T)
            r = np.random.default_rng(op["pseed"] + 11)
            rho_data = np.zeros((nspin, 5, n))
            rho_data[:, 0] = X0T[:, 0] / nspin
            rho_data[:, 1:4] = r.normal(size=(nspin, 3, n)) * rho_data[:, :1] ** (4.0 / 3)
            rho_data[:, 4] = np.abs(r.normal(size=(nspin, n))) * rho_data[:, 0] ** (5.0 / 3) + (rho_data[:, 1:4] ** 2).sum(1) / (8 * rho_data[:, 0] + 1e-300)
            rt = get_rho_tuple_with_grad_cross(rho_data, is_mgga=True)
            b = adigest(X0TN, *rt)
            inj = for_op(op)
            try:
                with inj:
                    out = _eval_model(m, X0TN, rt, op["rhocut"])
            except Exception as ex:
                if inj.fired:
                    remember(op, inj)
                    stats["calls_interrupted_by_injected_failure"] += 1
                    stats["fault_site_" + inj.where] += 1
                    continue
                V("call-raises:%s:%s" % (site, type(ex).__name__), "step %d: %s" % (step, str(ex)[:200]))
                break
            if adigest(X0TN, *rt) != b:
                V("input-mutated:%s:features" % site, "step %d" % step)
            # fresh model object, same input
            set_perturb(hist["perturb"] ^ 0x5A)
            m2 = U.fresh_model(0)
            ref = _eval_model(m2, X0TN.copy(), tuple(x.copy(order="F") for x in rt), op["rhocut"])
            set_perturb(hist["perturb"])
            stats["reference_calls"] += 1
            for name, a, c in zip(["res", "dres", "vrho", "vsigma", "vtau"], out, ref):
                ok, why = close(a, c, 1e-12)
                stats["comparisons"] += 1
                if not ok:
                    V("history_vs_fresh:%s:%s" % (site, name), "step %d n=%d nspin=%d: %s" % (step, n, nspin, why))
            # chunked evaluation = whole evaluation (pointwise model)
            if op["split"] and n > 1:
                k = op["split"]
                if k == "pairs":
                    cuts = [0, 2, 3, 5, n] if n > 5 else [0, n]
                else:
                    cuts = list(range(0, n, max(1, n // k if k < 1000 else k)))[:12] + [n]
                cuts = sorted(set(cuts))
                parts = []
                try:
                    for a0, a1 in zip(cuts[:-1], cuts[1:]):
                        rt_p = tuple(np.asfortranarray(x[:, a0:a1]) for x in rt)
                        parts.append(_eval_model(m, np.ascontiguousarray(X0TN[:, :, a0:a1]), rt_p, op["rhocut"]))
                except Exception as ex:
                    V("call-raises:%s:%s:chunk-of-%d" % (site, type(ex).__name__, a1 - a0), "step %d n=%d nspin=%d mode=%s: %s" % (step, n, nspin, hist["models"][0]["mode"], str(ex)[:200]))
                    break
                stats["chunked_evals"] += 1
                for qi, name in enumerate(["res", "dres", "vrho", "vsigma", "vtau"][: len(out)]):
                    whole = np.asarray(out[qi])
                    cat = np.concatenate([np.asarray(pp[qi]) for pp in parts], axis=-1)
                    ok, why = close(cat, whole, 1e-12)
                    stats["comparisons"] += 1
                    if not ok:
                        V("chunking:%s:%s" % (site, name), "step %d n=%d cuts=%s: %s" % (step, n, cuts[:6], why))
        dg.add(n, nspin)
    return viol, stats, dg


# ---------------------------------------------------------------------------------
# feature-list histories (every registered map class; values, derivatives, chunks, odd inputs)
# ---------------------------------------------------------------------------------
def gen_fl_history(seed):
    from cidersim.engines import fsim

    rng = Rng(derive("c09-fl", seed))
    names = fsim.all_map_names()
    # every class comes round: the first map of history i is class i mod len(names)
    first = names[seed % len(names)]
    maps = [{"cls": first, "mseed": rng.below(10**6)}] + [{"cls": rng.choice(names), "mseed": rng.below(10**6)} for _ in range(rng.randint(1, 4))]
    ops = []
    for _ in range(rng.randint(3, 6)):
        ops.append({"op": rng.weighted([("vals", 4), ("derivs", 4), ("call", 2)]), "x": rng.below(2), "split": rng.choice([None, 2, 3, 7])})
    return {"kind": "fl", "models": [], "maps": maps, "n": rng.choice([1, 5, 16, 33, 100]), "special": rng.choice([0.0, 0.0, 0.1, 0.3]), "xseed": rng.below(10**6), "ops": ops, "perturb": rng.choice(PERTURBS)}


def exec_fl_history(hist, rp):
    from ciderpress.dft import transform_data as td
    from cidersim.engines import fsim

    viol = []
    stats = Counter()
    dg = Digest()

    def V(key, detail):
        viol.append({"key": key, "detail": detail, "replay": rp})

    def new_list():
        return td.FeatureList([fsim.make_map(m["cls"], Rng(derive("c09-fl-map", m["cls"], m["mseed"]))) for m in hist["maps"]])

    n = int(hist["n"])
    r = np.random.default_rng(hist["xseed"])
    xs = []
    for k in range(2):
        x = np.abs(r.normal(size=(fsim.NRAW, n))) + 0.05
        x[r.random(x.shape) < 0.2] *= -1.0  # signed raw features exist (dot products, Laplacians)
        sp = r.random(x.shape) < float(hist["special"])
        vals = r.choice(np.array([np.nan, 0.0, -0.0, 1e11, -1e11, 1e-300]), size=x.shape)
        x[sp] = vals[sp]
        stats["special_input_entries"] += int(sp.sum())
        xs.append(np.ascontiguousarray(x))
    dfdy0 = r.normal(size=(len(hist["maps"]), n))

    def do(fl, op, x, lo=0, hi=None):
        hi = n if hi is None else hi
        xx = np.ascontiguousarray(x[:, lo:hi])
        with np.errstate(all="ignore"):
            if op["op"] == "vals":
                t = np.zeros((fl.nfeat, hi - lo))
                fl.fill_vals_(t, xx)
                return {"vals": t}, xx
            if op["op"] == "call":
                return {"vals": np.array(fl(np.ascontiguousarray(xx.T)), copy=True).T}, xx
            dfdx = np.zeros((fsim.NRAW, hi - lo))
            dy = np.ascontiguousarray(dfdy0[:, lo:hi])
            b = adigest(dy)
            fl.fill_derivs_(dfdx, dy, xx)
            if adigest(dy) != b:
                V("input-mutated:FeatureList.fill_derivs_:dfdy", "maps %s" % [m["cls"] for m in hist["maps"]])
            return {"dfdx": dfdx}, xx

    set_perturb(hist["perturb"])
    fl = new_list()
    work = [x.copy() for x in xs]  # the caller's arrays: kept and handed over again, as a training loop does
    site = "FeatureList"
    for step, op in enumerate(hist["ops"]):
        stats["op_fl_" + op["op"]] += 1
        dg.add(op["op"], op["x"])
        x = work[op["x"]]
        b = adigest(x)
        try:
            got, _ = do(fl, op, x)
            exc = None
        except Exception as ex:
            got, exc = None, type(ex).__name__
        if adigest(x) != b:
            bad = [m["cls"] for m in hist["maps"]]
            V("input-mutated:%s.%s:x" % (site, op["op"]), "step %d: the caller's feature array was changed (maps %s)" % (step, bad))
            work[op["x"]] = xs[op["x"]].copy()  # the caller restores its data; later steps are judged on their own
            x = work[op["x"]]
        # a fresh list on a fresh copy of the caller's data
        set_perturb(hist["perturb"] ^ 0x5A)
        try:
            ref, _ = do(new_list(), op, xs[op["x"]].copy())
            rexc = None
        except Exception as ex:
            ref, rexc = None, type(ex).__name__
        set_perturb(hist["perturb"])
        stats["reference_calls"] += 1
        if exc or rexc:
            if exc != rexc:
                V("history_vs_fresh:%s.%s:raises-%s-fresh-%s" % (site, op["op"], exc, rexc), "step %d" % step)
            else:
                stats["requests_refused_by_fresh_lists_too"] += 1
            continue
        for name in sorted(ref):
            ok, why = close(got[name], ref[name], 1e-13)
            stats["comparisons"] += 1
            if not ok:
                V("history_vs_fresh:%s.%s:%s" % (site, op["op"], name), "step %d after %s (maps %s): %s" % (step, [o["op"] for o in hist["ops"][:step]][-3:], [m["cls"] for m in hist["maps"]], why))
        if op.get("split") and n > 1:
            k = int(op["split"])
            cuts = sorted(set(list(range(0, n, max(1, n // k))) + [n]))
            try:
                parts = [do(fl, op, x, a0, a1)[0] for a0, a1 in zip(cuts[:-1], cuts[1:])]
            except Exception as ex:
                V("chunking:%s.%s:raises-%s" % (site, op["op"], type(ex).__name__), "step %d cuts %s" % (step, cuts[:6]))
                continue
            stats["chunked_evals"] += 1
            for name in sorted(got):
                cat = np.concatenate([pp[name] for pp in parts], axis=-1)
                ok, why = close(cat, got[name], 1e-13)
                stats["comparisons"] += 1
                if not ok:
                    V("chunking:%s.%s:%s" % (site, op["op"], name), "step %d cuts %s: %s" % (step, cuts[:6], why))
    return viol, stats, dg


# ---------------------------------------------------------------------------------
EXEC = {"tgen": exec_tgen_history, "ni": exec_ni_history, "nldfgen": exec_nldfgen_history, "sdmxgen": exec_sdmxgen_history, "eval": exec_eval_history, "plan": exec_plan_history, "ks": exec_ks_history, "slplan": exec_slplan_history, "an": exec_an_history, "fl": exec_fl_history}


def gen_big_mixed_history(seed):
    """a model whose nonlocal and SDMX parts both loop over the grid blocks, batches of two
    and three matrices, on a grid above the integrators' block cap (several blocks at the
    default memory budget): emitted on purpose, the seeded mix reaches it a few times per
    thousand histories"""
    rng = Rng(derive("c09-big-mixed", seed))
    s_, ev_, mode_, ver_ = [m_ for m_ in NI_MODELS if m_[0] == "nldf_j_sdmx"][0]
    m = {"settings": s_, "ev": ev_, "mode": mode_, "version": ver_, "seed": rng.below(10**6), "plan_type": rng.choice(["gaussian", "spline"]), "interp": "onsite_direct", "xmix": 0.5, "xc_form": "pbe_pair", "alpha_max": 3000.0, "lmax": None, "rhocut": None, "sdmx_kw": None, "via_file": False, "zero_d": False}
    mols = [{"name": rng.choice(["He", "Li", "O"]), "basis": "sto-3g", "dseed": rng.below(10**6)}]
    ops = []
    u0 = bool(rng.chance(0.5))
    for u_, nset, mm in ((u0, 2, 2000), (not u0, 2, 2000), (u0, rng.choice([1, 3]), rng.choice([4000, 100]))):
        ops.append({"op": "call", "model": 0, "mol": 0, "grid": 0, "uks": u_, "dms": [rng.below(3) for _ in range(nset)], "max_memory": mm, "calc": 0, "container": "array", "alias": None})
    return {"kind": "ni", "models": [m], "mols": mols, "grids": [{"atom_grid": [200, 434], "prune": False}], "ops": ops, "perturb": rng.choice(PERTURBS)}


def gen_history(kind, seed, force=None):
    if kind == "ni" and force == "big_mixed":
        h = gen_big_mixed_history(seed)
    elif kind == "ni":
        h = gen_ni_history(seed)
    elif kind == "gen":
        h = gen_gen_history(seed)
    elif kind == "plan":
        h = gen_plan_history(seed)
    elif kind == "ks":
        h = gen_ks_history(seed)
    elif kind == "an":
        h = gen_an_history(seed)
    elif kind == "fl":
        h = gen_fl_history(seed)
    else:
        h = gen_eval_history(seed)
    r = Rng(derive("c09-flags", kind, seed))
    h["scribble"] = bool(r.chance(0.4))
    h["near_dup"] = bool(r.chance(0.3))
    fd_ = bool(r.chance(0.25))
    h["fd_dm"] = bool(h.get("fd_dm")) or fd_
    return h


def process_fresh_reference(hist, last, rp):
    """Every completed integrator call of the history once more in a fresh interpreter (other
    PYTHONHASHSEED), each on fresh objects and in REVERSE order: fresh objects inside this
    process share its module-level state (tables memoised at import level, id()-keyed caches)
    with the long-lived ones, a new process does not, and state that leaks from one call into
    a later one leaks the other way round there."""
    import subprocess

    calls = last.get("all") or {}
    steps = sorted(calls)[-6:]
    if not steps:
        return [], 0
    sub = {k: v for k, v in hist.items() if k != "ops"}
    sub["scribble"] = False
    job = {"hist": sub, "ops": [[st_, calls[st_][0]] for st_ in reversed(steps)]}
    env = dict(os.environ)
    env["PYTHONHASHSEED"] = "7"
    env["PYTHONPATH"] = os.path.dirname(os.path.dirname(os.path.dirname(os.path.abspath(__file__))))
    p = subprocess.run([sys.executable, "-m", "cidersim.engines.history_child"], input=json.dumps(job).encode(), capture_output=True, env=env, timeout=1800)
    lines = p.stdout.decode().strip().splitlines()
    if p.returncode != 0 or not lines:
        return [{"key": "process-fresh:child-failed", "detail": "rc=%s %s" % (p.returncode, p.stderr.decode()[-300:]), "replay": rp}], 0
    res = json.loads(lines[-1])
    viol = []
    for st_ in steps:
        r_ = res.get(str(st_))
        if not r_ or r_.get("violations") or "out" not in r_:
            continue  # that call disagrees with fresh objects even there: the in-process check reports it
        op_, out_ = calls[st_]
        for name, got, want in zip(("nelec", "excsum", "vmat"), out_, r_["out"]):
            want = np.asarray(want, dtype=float)
            ok, why = close(got, want.reshape(np.shape(got)) if want.size == np.size(got) else want)
            if not ok:
                viol.append({"key": "history_vs_fresh_process:%s:%s" % ("nr_uks" if op_["uks"] else "nr_rks", name), "detail": "call at step %d differs from the same call made in a fresh interpreter (calls in reverse order): %s" % (st_, why), "replay": rp})
    return viol, len(steps)


# ---------------------------------------------------------------------------------
# fault enumeration: every shallow fault point of the call that follows a configuration switch
# ---------------------------------------------------------------------------------
FAULTENUM_SEQS = [
    {"settings": "nldf_j", "ev": "rbf", "mode": "SEP", "switch": "spin"},
    {"settings": "sdmx", "ev": "rbf", "mode": "SEP", "switch": "spin"},
    {"settings": "nldf_j_sdmx", "ev": "rbf", "mode": "SEP", "switch": "mol"},
    {"settings": "nldf_i_l1", "ev": "rbf", "mode": "SEP", "switch": "spin_r"},
    {"settings": "nldf_k", "ev": "rbf", "mode": "NPOL", "switch": "mol"},
    {"settings": "sdmxg1", "ev": "rbf", "mode": "SEP", "switch": "spin_r"},
    {"settings": "sl_npa", "ev": "rbf", "mode": "SEP", "switch": "spin"},
    {"settings": "nldf_ij", "ev": "spline+rbf", "mode": "SEP", "switch": "grid"},
]


def faultenum_history(seq, k, depth=3):
    """call under configuration A, switch, the call under configuration B fails at its k-th
    shallow line (package frames at most 3 deep: where calculators and generators record what
    they are set up for - a failure inside any deeper callee surfaces at one of these lines),
    then the same call again on the same objects"""
    m = {"settings": seq["settings"], "ev": seq["ev"], "mode": seq["mode"], "version": 1, "seed": 5, "plan_type": "gaussian", "interp": "onsite_direct", "xmix": 0.5}
    base = {"op": "call", "model": 0, "mol": 0, "grid": 0, "uks": False, "dms": [0], "max_memory": 2000, "calc": 0, "container": "single", "alias": None}
    mols = [{"name": "H2", "basis": "sto-3g", "dseed": 3}]
    grids = [{"atom_grid": [14, 50]}]
    sw = seq["switch"]
    if sw == "spin":
        a, b, mid = dict(base), dict(base, uks=True), []
    elif sw == "spin_r":
        a, b, mid = dict(base, uks=True), dict(base), []
    elif sw == "mol":
        mols.append({"name": "H2", "basis": "sto-3g", "dseed": 3, "shift": [0.1, -0.2, 0.15]})
        a, b, mid = dict(base), dict(base, mol=1), [{"op": "regrid_inplace", "from_mol": 0, "to_mol": 1, "grid": 0}]
    else:
        grids.append({"atom_grid": [20, 86]})
        a, b, mid = dict(base), dict(base, grid=1), []
    ops = [a] + mid + [dict(b, fault=k, fault_shallow=depth), dict(b)]
    return {"kind": "ni", "models": [m], "mols": mols, "grids": grids, "perturb": 0xA5, "ops": ops, "scribble": False, "near_dup": False, "share_refs": True, "judge_from": len(ops) - 1}


def run_faultenum(spec):
    viol, stats, dg = [], Counter(), Digest()
    seen = set()
    for k in range(spec["k0"], spec["k1"]):
        hist = faultenum_history(FAULTENUM_SEQS[spec["seq"]], k, spec.get("depth", 3))
        rp = {"property": PROP, "engine": "histsim", "case": {"hist": hist}}
        try:
            v, st_, d_ = exec_ni_history(hist, rp)
        finally:
            set_perturb(0)
        rp.pop("_last_call", None)
        fop = [o for o in hist["ops"] if o.get("fault")][0]
        if not fop.get("fault_site"):
            stats["fault_points_beyond_end_of_call"] += 1
            break  # k is beyond the last shallow line of the call: this sequence is exhausted
        stats["fault_points_enumerated"] += 1
        stats["comparisons"] += st_["comparisons"]
        stats["reference_calls"] += st_["reference_calls"]
        dg.add(k, fop["fault_site"][0])
        for x in v:
            if x["key"] not in seen:
                seen.add(x["key"])
                x["detail"] = "fault point %d (%s line %d) after switch '%s': %s" % (k, fop["fault_site"][0], fop["fault_site"][1], FAULTENUM_SEQS[spec["seq"]]["switch"], x["detail"])
                viol.append(x)
    stats["hist_faultenum"] += 1
    return {"digest": dg.hex(), "nontrivial": stats["fault_points_enumerated"] > 0, "violations": viol, "stats": dict(stats), "sample": {"kind": "faultenum", "seq": FAULTENUM_SEQS[spec["seq"]], "k": [spec["k0"], spec["k1"]]}, "tuples": []}


GEN_FAULTENUM = [
    # (history kind, generator parameters seed, which op fails)
    ("nldfgen", 101, "feat"),
    ("nldfgen", 102, "pot"),
    ("sdmxgen", 103, "featvxc"),
    ("plan", 104, "rho"),
    ("plan", 105, "vxc"),
    ("nldfgen", 106, "feat"),
    ("sdmxgen", 107, "featvxc"),
]


def gen_faultenum_history(kind, pseed, target, k):
    """generator / plan level: an ordinary call, then the target call failing at its k-th
    shallow line, then the same call again and whatever consumes its state"""
    from cidersim.workloads import omp_workloads as W

    rng = Rng(derive("c09-gen-faultenum", kind, pseed))
    f = {"fault": k, "fault_shallow": 3}
    if kind == "nldfgen":
        p = W.draw_nldf_params(rng)
        p["nspin"] = 2
        p["interp"] = rng.choice(["onsite_direct", "onsite_spline"])
        p["mol"] = "H2"
        feat = {"op": "feat", "spin": 0, "rho": 0, "alias": None, "mode": "plain", "obj": 0}
        pot = {"op": "pot", "spin": 0, "v": 0, "alias": None, "obj": 0}
        if target == "feat":
            ops = [feat, pot, dict(feat, rho=1, **f), dict(feat, rho=1), dict(pot, v=1)]
        else:
            ops = [feat, dict(pot, **f), pot, dict(feat, spin=1, rho=1), dict(pot, spin=1, v=1), dict(pot, v=2)]
        return {"kind": "nldfgen", "params": p, "ops": ops, "nobj": 1, "perturb": 0xA5}
    if kind == "sdmxgen":
        p = W.draw_sdmx_params(rng)
        p["mol"] = "H2"
        op = {"op": "featvxc", "ngrids": 57, "cseed": 1, "nset": 1, "dm": 0, "save_buf": True, "vxc_twice": False}
        ops = [op, dict(op, ngrids=112, dm=1, **f), dict(op, ngrids=112, dm=1), dict(op, ngrids=16, dm=2, vxc_twice=True)]
        return {"kind": "sdmxgen", "params": p, "ops": ops, "perturb": 0xA5}
    p = W.draw_plan_params(rng)
    p["nspin"] = 2
    p["smooth"] = False
    p["n"] = 33
    rho = {"op": "rho", "spin": 0, "f": 0, "rho": 0, "cache_p": True, "obj": 0}
    vxc = {"op": "vxc", "spin": 0, "v": 0, "obj": 0}
    if target == "rho":
        ops = [rho, vxc, dict(rho, f=1, rho=1, **f), dict(rho, f=1, rho=1), dict(vxc, v=1)]
    else:
        ops = [rho, dict(vxc, **f), vxc, dict(rho, spin=1, f=1, rho=1), dict(vxc, spin=1, v=1)]
    return {"kind": "plan", "params": p, "ops": ops, "nobj": 1, "perturb": 0xA5}


def run_gen_faultenum(spec):
    kind, pseed, target = GEN_FAULTENUM[spec["seq"]]
    viol, stats, dg = [], Counter(), Digest()
    seen = set()
    for k in spec.get("klist") or range(spec["k0"], spec["k1"]):
        hist = gen_faultenum_history(kind, pseed, target, k)
        hist["scribble"] = False
        hist["near_dup"] = False
        rp = {"property": PROP, "engine": "histsim", "case": {"hist": hist}}
        try:
            v, st_, d_ = EXEC[hist["kind"]](hist, rp)
        finally:
            set_perturb(0)
        fop = [o for o in hist["ops"] if o.get("fault")][0]
        if not fop.get("fault_site"):
            stats["fault_points_beyond_end_of_call"] += 1
            break
        stats["fault_points_enumerated"] += 1
        stats["comparisons"] += st_["comparisons"]
        stats["reference_calls"] += st_["reference_calls"]
        dg.add(k, fop["fault_site"][0])
        for x in v:
            if x["key"] not in seen:
                seen.add(x["key"])
                x["detail"] = "fault point %d of %s.%s (%s line %d): %s" % (k, kind, target, fop["fault_site"][0], fop["fault_site"][1], x["detail"])
                viol.append(x)
    stats["hist_faultenum"] += 1
    return {"digest": dg.hex(), "nontrivial": stats["fault_points_enumerated"] > 0, "violations": viol, "stats": dict(stats), "sample": {"kind": "faultenum", "seq": list(GEN_FAULTENUM[spec["seq"]]), "k": [spec["k0"], spec["k1"]]}, "tuples": []}


def run_case(spec):
    if spec.get("hkind") == "faultenum":
        return run_faultenum(spec)
    if spec.get("hkind") == "gen_faultenum":
        return run_gen_faultenum(spec)
    hist = spec.get("hist") or gen_history(spec["hkind"], spec["seed"], spec.get("force"))
    rp = {"property": PROP, "engine": "histsim", "case": {"hist": hist, "hkind": spec.get("hkind"), "seed": spec.get("seed"), "proc_ref": bool(spec.get("proc_ref"))}}
    try:
        viol, stats, dg = EXEC[hist["kind"]](hist, rp)
    finally:
        set_perturb(0)
    last = rp.pop("_last_call", None)
    if spec.get("child"):
        out = {"violations": [v["key"] for v in viol]}
        if last and "out" in last:
            out["out"] = [np.asarray(x).tolist() for x in last["out"]]
        return out
    if spec.get("proc_ref") and hist["kind"] == "ni" and last and last.get("all") and not viol:
        v2, n2 = process_fresh_reference(hist, last, rp)
        viol += v2
        stats["process_fresh_references"] += n2
    stats["hist_" + hist["kind"]] += 1
    stats["perturb_%02x" % hist["perturb"]] += 1
    sample = {"kind": hist["kind"], "ops": hist["ops"][:8]}
    if hist["kind"] in ("ni", "eval", "ks"):
        sample["models"] = [(m["settings"], m["ev"], m["mode"], m["version"]) for m in hist["models"]]
    if hist["kind"] == "ni":
        sample["mols"] = hist["mols"]
    tuples = set()
    if hist["kind"] == "ni":
        calls = [o for o in hist["ops"] if o["op"] == "call"]
        for a, b in zip(calls, calls[1:]):
            tuples.add(("%s>%s" % ("u" if a["uks"] else "r", "u" if b["uks"] else "r"), hist["models"][b["model"]]["settings"], a["model"] == b["model"], a["mol"] == b["mol"], len(b["dms"])))
    return {
        "digest": dg.hex(),
        "nontrivial": stats["comparisons"] > 0,
        "violations": viol,
        "stats": dict(stats),
        "sample": sample,
        "tuples": [list(t) for t in tuples],
    }


def warm(args):
    boot.activate("plain")
    import pyscf.dft  # noqa: F401

    import ciderpress.pyscf.dft  # noqa: F401
    from cidersim import zoo
    from cidersim.engines import fsim

    fe, _ = fsim.make_obj({"obj": "spline", "N1": 3, "seed": 0})
    fsim.eval_spline(fe, 1)  # numba compilation before forking
    fe, _ = fsim.make_obj({"obj": "spline", "N1": 2, "seed": 1})
    fsim.eval_spline(fe, 1)


def plan(tier, seed, args):
    cases = []
    if tier == "quick":
        n_ni, n_gen, n_ev = 110, 60, 50
    else:
        n_ni, n_gen, n_ev = 6000, 3000, 1500
    if args.cases is not None:
        n_ni, n_gen, n_ev = args.cases, args.cases // 2, args.cases // 2
    for i in range(n_ni):
        cases.append({"hkind": "ni", "seed": derive(seed, PROP, "ni", i) % 10**9, "proc_ref": (i % 4 == 2)})
    for i in range(2 if tier == "quick" else 40):
        cases.append({"hkind": "ni", "seed": derive(seed, PROP, "big-mixed", i) % 10**9, "proc_ref": False, "force": "big_mixed"})
    for i in range(n_gen):
        cases.append({"hkind": "gen", "seed": derive(seed, PROP, "gen", i) % 10**9})
    for i in range(n_ev):
        cases.append({"hkind": "eval", "seed": derive(seed, PROP, "eval", i) % 10**9})
    for i in range(n_ev):
        cases.append({"hkind": "plan", "seed": derive(seed, PROP, "plan", i) % 10**9})
    for i in range(n_gen):
        cases.append({"hkind": "ks", "seed": derive(seed, PROP, "ks", i) % 10**9})
    for i in range(n_ev // 2):
        cases.append({"hkind": "an", "seed": derive(seed, PROP, "an", i) % 10**9})
    for i in range(n_ev):
        cases.append({"hkind": "fl", "seed": derive(seed, PROP, "fl", i) % 10**9})
    # a wall-time budget that runs out (a loaded machine) must cut every kind of history
    # alike, not the kinds that happen to be planned last: proportional interleaving
    groups = {}
    for c_ in cases:
        groups.setdefault(c_["hkind"], []).append(c_)
    total = len(cases)
    keyed = []
    for kind_, lst in sorted(groups.items()):
        for pos, c_ in enumerate(lst):
            keyed.append(((pos + 0.5) / len(lst), kind_, pos, c_))
    keyed.sort(key=lambda t: t[:3])
    cases = [t[3] for t in keyed]
    assert len(cases) == total
    # enumerated fault points (not seeded): the set-up phase of the call in quick, the whole
    # call in thorough
    if args.cases is None:
        nseq, npts, chunk = (3, 30, 5) if tier == "quick" else (len(FAULTENUM_SEQS), 900, 30)
        fe = []
        for q in range(nseq):
            for k0 in range(1, npts + 1, chunk):
                fe.append({"hkind": "faultenum", "seq": q, "k0": k0, "k1": min(k0 + chunk, npts + 1)})
        # ... and every line of a constructor executed during that call (objects that own C
        # resources are half-built there)
        nseq3, npts3, chunk3 = (1, 240, 12) if tier == "quick" else (5, 1500, 30)
        for q in range(nseq3):
            for k0 in range(1, npts3 + 1, chunk3):
                fe.append({"hkind": "faultenum", "seq": q, "k0": k0, "k1": min(k0 + chunk3, npts3 + 1), "depth": -1})
        nseq2, npts2, chunk2 = (5, 60, 12) if tier == "quick" else (len(GEN_FAULTENUM), 600, 30)
        for q in range(nseq2):
            for k0 in range(1, npts2 + 1, chunk2):
                fe.append({"hkind": "gen_faultenum", "seq": q, "k0": k0, "k1": min(k0 + chunk2, npts2 + 1)})
            if tier == "quick":
                # ... and a stride through the rest of the call (work buffers are written and
                # released deep inside a pass, not only in its set-up phase); thorough takes all
                rest = list(range(npts2 + 1 + (seed + q) % 4, 330, 4))
                for i0 in range(0, len(rest), 12):
                    fe.append({"hkind": "gen_faultenum", "seq": q, "k0": rest[i0], "k1": rest[i0] + 1, "klist": rest[i0 : i0 + 12]})
        cases = fe + cases  # the slow ones first
    return cases


def replay(rp):
    boot.activate("plain")
    return run_case(rp["case"])


def on_crash(spec, status):
    """the interpreter died (SIGSEGV/SIGBUS/SIGABRT/...) in the middle of a generated history:
    every request of a history is valid and is answered by fresh objects, so a call sequence
    that takes the process down gives "not the same answer as fresh objects".  Reported only
    if the first operation alone (fresh objects, no history yet) survives; watchdog and
    out-of-memory kills stay harness errors."""
    from cidersim.driver import fatal_signal, run_pool

    sig = fatal_signal(status)
    if sig is None:
        return None
    if spec.get("hkind") in ("faultenum", "gen_faultenum"):
        # one of the enumerated fault points took the process down: find it by running the
        # points of the chunk one by one
        for k in spec.get("klist") or range(spec["k0"], spec["k1"]):
            one = dict(spec, k0=k, k1=k + 1, klist=None)
            r = run_pool([one], run_case, nproc=1, case_timeout=CASE_TIMEOUT)[0]
            if r is not None and "crashed" in r and fatal_signal(r["crashed"]) is not None:
                if spec["hkind"] == "faultenum":
                    hist = faultenum_history(FAULTENUM_SEQS[spec["seq"]], k, spec.get("depth", 3))
                else:
                    hist = gen_faultenum_history(*GEN_FAULTENUM[spec["seq"]], k)
                key = "history-crash:%s:interrupted-call:signal%d:crash" % (hist["kind"], fatal_signal(r["crashed"]))
                rp = {"property": PROP, "engine": "histsim", "case": {"hist": hist}, "violation": {"key": key}}
                return {"key": key, "detail": "the process is killed by signal %d when the call is interrupted at enumerated fault point %d (mode %s) and the objects are used or collected afterwards" % (fatal_signal(r["crashed"]), k, spec.get("depth", 3)), "replay": rp}
        return None
    hist = spec.get("hist") or gen_history(spec["hkind"], spec["seed"])
    ops = hist.get("ops", [])
    if ops and ops[0].get("fault"):
        # the first operation is itself an interrupted call: the crash is a consequence of the
        # interruption iff the same operation completes when it is not interrupted
        plain = dict(spec, hist=dict(hist, ops=[{k_: v_ for k_, v_ in ops[0].items() if k_ not in ("fault", "fault_site", "fault_shallow")}]))
        r = run_pool([plain], run_case, nproc=1, case_timeout=CASE_TIMEOUT)[0]
        if r is None or "crashed" in r or "harness_error" in r:
            return None
    elif len(ops) > 1:
        first = dict(spec, hist=dict(hist, ops=hist["ops"][:1]))
        r = run_pool([first], run_case, nproc=1, case_timeout=CASE_TIMEOUT)[0]
        if r is None or "crashed" in r or "harness_error" in r:
            return None
    key = "history-crash:%s:signal%d:crash" % (hist["kind"], sig)
    rp = {"property": PROP, "engine": "histsim", "case": {"hist": hist, "hkind": spec.get("hkind"), "seed": spec.get("seed")}, "violation": {"key": key}}
    return {"key": key, "detail": "worker killed by signal %d while executing a %s history of %d operations" % (sig, hist["kind"], len(hist.get("ops", []))), "replay": rp}


def minimise(v):
    from cidersim.driver import run_pool

    case = v["replay"]["case"]
    hist = case["hist"]
    key = v["key"]

    def fails(h):
        r = run_pool([{"hist": h, "proc_ref": bool(case.get("proc_ref"))}], run_case, nproc=1, case_timeout=900)[0]
        if key.endswith(":crash"):
            return bool(r) and "crashed" in r
        return bool(r) and "violations" in r and any(x["key"] == key for x in r["violations"])

    ops = list(hist["ops"])
    budget = 25
    changed = True
    while changed and len(ops) > 1 and budget > 0:
        changed = False
        for i in range(len(ops) - 1, -1, -1):
            cand = ops[:i] + ops[i + 1 :]
            budget -= 1
            if budget <= 0:
                break
            if fails(dict(hist, ops=cand)):
                ops = cand
                changed = True
                break
    # simplify arguments of the remaining ops
    for i, o in enumerate(ops):
        for field, simple in (("max_memory", 2000), ("alias", None), ("container", "array"), ("split", None)):
            if field in o and o[field] != simple and budget > 0:
                cand = [dict(q) for q in ops]
                cand[i][field] = simple
                budget -= 1
                if fails(dict(hist, ops=cand)):
                    ops = cand
        if o.get("op") == "call" and len(o.get("dms", [])) > 2 and budget > 0:
            cand = [dict(q) for q in ops]
            cand[i]["dms"] = o["dms"][:2]
            budget -= 1
            if fails(dict(hist, ops=cand)):
                ops = cand
    out = dict(v)
    rp = dict(v["replay"])
    rp["case"] = {"hist": dict(hist, ops=ops)}
    rp["minimised_from_ops"] = len(hist["ops"])
    out["replay"] = rp
    return out


def coverage(done, tier):
    tot = Counter()
    samples = []
    tuples = set()
    for spec, res in done:
        for k, v in res.get("stats", {}).items():
            tot[k] += v
        for t in res.get("tuples", []):
            tuples.add(tuple(t))
        if res.get("sample") and len(samples) < 4 and res["sample"]["kind"] not in [s["kind"] for s in samples]:
            samples.append(res["sample"])
    return {
        "rule": "a case = one seeded call history on long-lived objects (calculator-, generator- or model-level) executed on the real code "
        "and compared call by call with fresh objects; non-trivial = at least one comparison against a fresh-object reference was made; "
        "distinct = distinct event-log digests (op sequence + rounded reference outputs)",
        "samples": samples,
        "histories_by_kind": {k[5:]: v for k, v in tot.items() if k.startswith("hist_")},
        "ops_by_kind": {k[3:]: v for k, v in tot.items() if k.startswith("op_")},
        "comparisons_against_fresh_objects": tot["comparisons"],
        "reference_calls": tot["reference_calls"],
        "perturbation_kinds_fired": {
            "batched_calls_nset_2": tot["calls_nset_2"],
            "batched_calls_nset_3": tot["calls_nset_3"],
            "calls_with_reduced_block_size": tot["calls_small_blocks"],
            "uks_calls": tot["calls_uks"],
            "restricted_unrestricted_switches_on_one_calculator": tot["spin_mode_switches_on_one_calculator"],
            "rks_calls": tot["calls_rks"],
            "generator_drops_reset_or_build": tot["generator_drops"],
            "grids_rebuilt_in_place_for_other_molecule": tot["grids_rebuilt_in_place"],
            "molecules_displaced_in_place_then_reset": tot["in_place_displacements"],
            "alias_readonly": tot["alias_readonly"],
            "alias_fortran_order": tot["alias_fortran"],
            "alias_same_array_both_spins": tot["alias_sameab"],
            "generator_spin_interleavings": tot["spin_interleavings"],
            "chunked_model_evaluations": tot["chunked_evals"],
            "repeated_potential_evaluations": tot["potential_calls"],
            "earlier_results_rechecked_after_later_calls": tot["held_results_rechecked"],
            "allocator_patterns": {k[8:]: v for k, v in tot.items() if k.startswith("perturb_")},
            "calls_interrupted_by_injected_failure": tot["calls_interrupted_by_injected_failure"],
            "fault_points_enumerated_after_a_configuration_switch": tot["fault_points_enumerated"],
            "everything_dropped_and_garbage_collected": tot["everything_dropped_and_collected"] + tot["grids_dropped_and_collected"],
            "calls_recomputed_in_a_fresh_process_in_reverse_order": tot["process_fresh_references"],
            "injected_failure_sites": {k[11:]: v for k, v in sorted(tot.items()) if k.startswith("fault_site_")},
            "injected_failure_point_beyond_end_of_call": tot["injected_failure_point_beyond_end_of_call"],
            "caller_buffers_overwritten_after_call": tot["caller_buffers_overwritten_after_call"],
            "caller_workspace_refilled_in_place": tot["workspace_refilled_in_place"],
            "lookalike_inputs": tot["lookalike_inputs"],
            "ops_on_second_live_object_of_a_kind": tot["ops_on_second_live_object"] + tot["calls_on_second_calculator_of_a_model"],
            "calls_on_grid_above_block_cap": tot["calls_on_grid_above_block_cap"],
            "generator_calls_by_layout": {k[10:]: v for k, v in tot.items() if k.startswith("feat_mode_")},
            "descriptor_generator_coordinate_retargets": tot["coordinate_retargets"],
            "force_evaluations_rejected_as_unsupported_by_both": tot["grad_not_implemented_on_both"],
            "gradient_driver_requests": {k[len("gradient_potential_calls_") :]: v for k, v in sorted(tot.items()) if k.startswith("gradient_potential_calls_") and "nset" not in k},
            "functional_swaps_on_one_ks_object": tot["functional_swaps_on_one_ks_object"],
            "functional_swaps_without_initializer_objects": tot["functional_swaps_without_initializers"],
            "analyses_of_a_live_ks_object_at_another_grid_level": tot["analyzer_other_level"],
            "analyses_interrupted_inside_the_temporary_grid_evaluation": tot["analyses_interrupted_by_injected_failure"],
            "special_entries_in_feature_list_inputs_nan_zero_huge": tot["special_input_entries"],
            "displaced_indefinite_matrix_requests_refused_by_fresh_objects_too": tot["displaced_matrix_refused_by_fresh_objects_too"],
            "feature_list_requests_refused_by_fresh_lists_too": tot["requests_refused_by_fresh_lists_too"],
        },
        "probes": {
            "nldf_generator_reused": tot["nldf_generator_reused"],
            "nldf_generator_initialised": tot["nldf_generator_initialised"],
            "sdmx_generator_reused": tot["sdmx_generator_reused"],
            "sdmx_generator_initialised": tot["sdmx_generator_initialised"],
            "calculators_built": tot["calculators_built"],
            "requests_rejected_by_fresh_objects_too": tot["rejected_by_fresh_objects_too"],
        },
        "distinct_transition_tuples": len(tuples),
        "distinct_transition_tuples_measure": "(spin transition, model family, same model?, same molecule?, nset) over consecutive calculator calls",
        "simulated_time": "not applicable: nothing on this surface reads a clock",
        "real_components": ["ciderpress Python (working tree)", "libmcider/libnumint/libxc_utils (plain build, 1 OpenMP thread)", "PySCF", "libxc", "OpenBLAS", "glibc malloc with M_PERTURB"],
        "stub_components": ["models and density matrices are synthetic"],
    }
