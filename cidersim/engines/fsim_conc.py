"""E3 `fsim`, concurrent clients — C14 under interleaved save/load requests of one process.

Two or three caller threads of one process save and load *their own* files at the same time
(a training script that writes a checkpoint from a worker thread while the main thread
saves a feature list, a job runner that serves several requests).  The threads are real
Python threads, but exactly one runs at a time: every operation on the simulated file tree
(open, each raw read / write, close, rename / replace, remove, exists, stat, listdir) is a
pre-emption point at which the seeded scheduler decides who goes on, so one integer is one
interleaving and replays exactly.  Faults (ENOSPC at the k-th raw write, sticky; short
writes) belong to the client whose operation they were drawn for.

Oracle: clients touch disjoint paths, so each of them must see exactly what it would see
alone - an acknowledged dump loads back to the reference digest of the object, a failed dump
of one client leaves the files of the others alone, no request raises - and after the
threads have ended every acknowledged path loads to its reference.  Nothing is demanded for
two writers of the *same* path (not generated).

A thread that stops making progress without reaching a pre-emption point (code under test
that takes a lock another, parked, client holds) is not a violation: the case is abandoned
and run again serially (`concurrent_cases_fell_back_to_serial`)."""
import threading
import time
from collections import Counter

from cidersim.prng import Digest, Rng, derive

STALL_S = 30.0


class Abandon(Exception):
    pass


class Sched:
    """baton passing: `cur` is the only client allowed to run"""

    def __init__(self, rng, n, strategy, serial=False):
        self.rng = rng
        self.n = n
        self.strategy = strategy
        self.serial = serial
        self.cv = threading.Condition()
        self.cur = None
        self.alive = set(range(n))
        self.tids = {}
        self.trace = []
        self.switches = 0
        self.points = 0
        self.abandoned = False
        self.progress = 0
        self.burst = 0

    def me(self):
        return self.tids.get(threading.get_ident())

    def _pick(self, me):
        al = sorted(self.alive)
        if not al:
            return None
        if self.serial:
            return me if me in self.alive else al[0]
        if self.strategy == "rr":
            later = [t for t in al if me is not None and t > me]
            return later[0] if later else al[0]
        if self.strategy == "bursty":
            # long runs of one client, switches at random points
            if me in self.alive and self.burst > 0:
                self.burst -= 1
                return me
            self.burst = self.rng.randint(1, 12)
            return self.rng.choice(al)
        return self.rng.choice(al)

    def point(self, label, path):
        me = self.me()
        if me is None:
            return
        with self.cv:
            if self.abandoned:
                raise Abandon()
            self.points += 1
            self.progress += 1
            nxt = self._pick(me)
            if nxt != me:
                self.switches += 1
            if len(self.trace) < 4000:
                self.trace.append(nxt)
            self.cur = nxt
            self.cv.notify_all()
            while self.cur != me:
                self.cv.wait(1.0)
                if self.abandoned:
                    raise Abandon()

    def start_client(self, t):
        self.tids[threading.get_ident()] = t
        with self.cv:
            while self.cur != t:
                self.cv.wait(1.0)
                if self.abandoned:
                    raise Abandon()

    def end_client(self, t):
        with self.cv:
            self.alive.discard(t)
            self.progress += 1
            if self.cur == t:
                self.cur = self._pick(None)
            self.cv.notify_all()


def gen(seed):
    from cidersim.engines.fsim import HIST_OBJS

    rng = Rng(derive("fsim-conc", seed))
    nth = rng.choice([2, 2, 2, 3])
    nobj = rng.randint(2, 4)
    objs = []
    cheap = [d for d in HIST_OBJS if d["obj"] != "model"]
    for _ in range(nobj):
        d = dict(rng.choice(cheap if rng.chance(0.6) else HIST_OBJS))
        d["seed"] = rng.below(1000)
        objs.append(d)
    clients = []
    for t in range(nth):
        ops = []
        for _ in range(rng.randint(2, 4)):
            c = rng.weighted([("dump", 7), ("load", 4), ("dump_fault", 2), ("short", 2), ("load_shared", 2), ("load_other", 3)])
            op = {"op": c, "obj": rng.below(nobj), "path": rng.below(2)}
            if c == "load_other":
                op["client"] = rng.below(3)
            if c == "dump_fault":
                op["at"] = rng.below(4)
            if c == "short":
                op["chunk"] = rng.choice(["third", "seven", "rand"])
            ops.append(op)
        if not any(o["op"] in ("dump", "short") for o in ops):
            ops.insert(0, {"op": "dump", "obj": rng.below(nobj), "path": 0})
        clients.append(ops)
    return {"objs": objs, "clients": clients, "strategy": rng.choice(["uniform", "uniform", "rr", "bursty"]), "sseed": rng.below(2**31), "small_buffers": bool(rng.chance(0.7)), "shared_obj": rng.below(nobj)}


def client_path(t, p, ext):
    from cidersim.engines.fsim import ROOT

    # path 0: one directory, names that differ per client; path 1: the same base name in a
    # directory of the client's own
    if p % 2 == 0:
        return "%s/out/%s_result%s" % (ROOT, "abc"[t], ext)
    return "%s/job_%s/model%s" % (ROOT, "abc"[t], ext)


def execute(hist, spec, serial=False):
    from cidersim.engines import fsim
    from cidersim.engines.fsim import EVAL, EXT, PROP, ROOT, Checker, chunker, do_dump, do_load, site, type_sig

    ck = Checker(None)
    fs = ck.fs
    fs.install()
    rp = {"property": PROP, "engine": "fsim", "case": {"kind": "concurrent", "hist": hist}}
    sched = Sched(Rng(derive("fsim-conc-sched", hist["sseed"])), len(hist["clients"]), hist["strategy"], serial=serial)
    lock_v = threading.Lock()
    stats = Counter()
    try:
        objs = []
        for d in hist["objs"]:
            o, kind = fsim.make_obj(d)
            fmt = {"featurelist": "yaml", "spline": "yaml"}.get(kind) or ["yaml", "cyaml", "joblib"][d["seed"] % 3]
            objs.append({"o": o, "kind": kind, "fmt": fmt, "ref": EVAL[kind](o, 11) + "|" + type_sig(o, kind)})
        # a file every client may read, written before the clients start
        sh = objs[hist["shared_obj"] % len(objs)]
        shared_path = "%s/out/shared_input%s" % (ROOT, EXT[sh["fmt"]])
        do_dump(sh["o"], sh["kind"], sh["fmt"], shared_path)
        plans = {}  # client -> plan of its current operation

        def plan_hook(path, kind_):
            t = sched.me()
            if t is None:
                return None
            pl = plans.get(t)
            if pl and pl.get("kind") == kind_:
                return pl["plan"]
            return None

        disks = [dict() for _ in hist["clients"]]
        errors = []
        # global order of events (the scheduler serialises the clients): a file another client
        # has finished writing and is not writing again must load to what it holds
        dump_started = {}  # path -> sequence number of the latest dump that started on it

        def V(key, detail):
            with lock_v:
                ck.v(key, detail, rp)

        def client(t):
            try:
                sched.start_client(t)
                disk = disks[t]
                for step, op in enumerate(hist["clients"][t]):
                    ob = objs[op["obj"] % len(objs)]
                    kind, fmt = ob["kind"], ob["fmt"]
                    c = op["op"]
                    stats["conc_op_" + c] += 1
                    S = lambda w: site(kind, fmt, w)  # noqa: E731
                    if c == "load_shared":
                        try:
                            o = do_load(sh["kind"], sh["fmt"], shared_path)
                            got = EVAL[sh["kind"]](o, 11) + "|" + type_sig(o, sh["kind"])
                        except Abandon:
                            raise
                        except Exception as e:
                            V("concurrent:%s:shared-file-load-raises" % site(sh["kind"], sh["fmt"], "load"), "client %d step %d: %s: %s" % (t, step, type(e).__name__, str(e)[:120]))
                            continue
                        if got != sh["ref"]:
                            V("concurrent:%s:shared-file-load-mismatch" % site(sh["kind"], sh["fmt"], "load"), "client %d step %d" % (t, step))
                        else:
                            stats["conc_acked_loads_ok"] += 1
                        continue
                    if c == "load_other":
                        t2 = op.get("client", 0) % len(hist["clients"])
                        if t2 == t:
                            t2 = (t + 1) % len(hist["clients"])
                        cands = sorted(p_ for p_, e_ in disks[t2].items() if e_["ack"] and not e_.get("busy"))
                        if not cands:
                            continue
                        path2 = cands[op["path"] % len(cands)]
                        ent = dict(disks[t2][path2])
                        s0 = dump_started.get(path2, -1)
                        try:
                            o = do_load(ent["kind"], ent["fmt"], path2)
                            got = EVAL[ent["kind"]](o, 11) + "|" + type_sig(o, ent["kind"])
                        except Abandon:
                            raise
                        except Exception as e:
                            got = None
                            err = "%s: %s" % (type(e).__name__, str(e)[:120])
                        if dump_started.get(path2, -1) != s0:
                            stats["conc_cross_loads_overtaken_by_a_writer_not_judged"] += 1
                            continue  # its owner started to write it again meanwhile: anything goes
                        if got is None:
                            V("concurrent:%s:other-clients-acked-file-load-raise" % site(ent["kind"], ent["fmt"], "load"), "client %d step %d reads %s: %s" % (t, step, path2, err))
                        elif got != ent["ref"]:
                            V("concurrent:%s:other-clients-acked-file-load-mismatch" % site(ent["kind"], ent["fmt"], "load"), "client %d step %d reads %s" % (t, step, path2))
                        else:
                            stats["conc_acked_loads_ok"] += 1
                            stats["conc_cross_client_loads_ok"] += 1
                        continue
                    path = client_path(t, op["path"], EXT[fmt])
                    if c in ("dump", "short", "dump_fault"):
                        dump_started[path] = sched.points
                        if path in disk:
                            disk[path]["busy"] = True
                        plan = {}
                        if hist.get("small_buffers"):
                            plan["buffer_size"] = 256
                        if c == "short":
                            plan = {"write_chunk": chunker(op["chunk"], step + 17 * t), "buffer_size": 256}
                        if c == "dump_fault":
                            plan["fail_write_at"] = op["at"]
                        plans[t] = {"kind": "w", "plan": plan}
                        try:
                            do_dump(ob["o"], kind, fmt, path)
                            ok, info = True, None
                        except Abandon:
                            raise
                        except Exception as e:
                            ok, info = False, "%s: %s" % (type(e).__name__, str(e)[:120])
                            if fsim.UNSUPPORTED_MARK in str(e):
                                ck.unsupported = True
                        finally:
                            plans.pop(t, None)
                        if ok:
                            disk[path] = {"ref": ob["ref"], "kind": kind, "fmt": fmt, "ack": True}
                        else:
                            disk[path] = {"ref": None, "kind": kind, "fmt": fmt, "ack": False}
                            if c != "dump_fault":
                                V("concurrent:%s:dump-raises-%s" % (S("dump"), info.split(":")[0]), "client %d step %d: %s" % (t, step, info))
                            else:
                                stats["conc_dumps_failed_by_injection"] += 1
                    elif c == "load":
                        ent = disk.get(path)
                        if ent is None or not ent["ack"]:
                            continue
                        try:
                            o = do_load(ent["kind"], ent["fmt"], path)
                            got = EVAL[ent["kind"]](o, 11) + "|" + type_sig(o, ent["kind"])
                        except Abandon:
                            raise
                        except Exception as e:
                            V("concurrent:%s:acked-file-load-raise" % site(ent["kind"], ent["fmt"], "load"), "client %d step %d: %s: %s" % (t, step, type(e).__name__, str(e)[:120]))
                            continue
                        if got != ent["ref"]:
                            V("concurrent:%s:acked-file-load-mismatch" % site(ent["kind"], ent["fmt"], "load"), "client %d step %d: the file holds another object" % (t, step))
                        else:
                            stats["conc_acked_loads_ok"] += 1
            except Abandon:
                pass
            except BaseException as e:  # harness trouble inside a client
                errors.append("%s: %s" % (type(e).__name__, str(e)[:200]))
            finally:
                sched.end_client(t)

        fs.hook = sched.point
        fs.plan_hook = plan_hook
        ths = [threading.Thread(target=client, args=(t,), daemon=True) for t in range(len(hist["clients"]))]
        for th in ths:
            th.start()
        with sched.cv:
            sched.cur = sched._pick(None)
            sched.cv.notify_all()
        # watchdog: a client that neither reaches a pre-emption point nor ends
        last, since = -1, time.time()
        while any(th.is_alive() for th in ths):
            time.sleep(0.01)
            if sched.progress != last:
                last, since = sched.progress, time.time()
            elif time.time() - since > STALL_S:
                with sched.cv:
                    sched.abandoned = True
                    sched.cv.notify_all()
                break
        for th in ths:
            th.join(2.0)
        fs.hook = None
        fs.plan_hook = None
        if sched.abandoned:
            return None
        if errors:
            raise RuntimeError("client thread failed in the harness: " + errors[0])
        # final sweep in the main thread
        for t, disk in enumerate(disks):
            for path, ent in sorted(disk.items()):
                if not ent["ack"]:
                    continue
                st, info, _ = ck.try_load(ent["kind"], ent["fmt"], path, 11)
                if st != "ok" or info != ent["ref"]:
                    ck.v("concurrent:%s:final-acked-file-mismatch" % site(ent["kind"], ent["fmt"], "load"), "client %d %s %s" % (t, path, st), rp)
                else:
                    stats["conc_acked_loads_ok"] += 1
        st, info, _ = ck.try_load(sh["kind"], sh["fmt"], shared_path, 11)
        if st != "ok" or info != sh["ref"]:
            ck.v("concurrent:%s:shared-file-changed" % site(sh["kind"], sh["fmt"], "load"), st, rp)
        leftovers = sorted(p for p in fs.files if p != shared_path and not any(p in d for d in disks))
        stats["conc_files_besides_the_targets"] += len(leftovers)
        for ob in objs:
            if EVAL[ob["kind"]](ob["o"], 11) + "|" + type_sig(ob["o"], ob["kind"]) != ob["ref"]:
                ck.v("concurrent:in-memory-object-changed:%s" % ob["kind"], "object differs after the clients ended", rp)
        dg = Digest()
        dg.add("conc", hist["strategy"], len(hist["clients"]))
        for x in sched.trace:
            dg.add(x)
        targets = {shared_path}.union(*[set(d) for d in disks])
        for p in sorted(fs.files):
            if p in targets:  # (scratch files a tree may leave behind carry process ids in their names)
                dg.add(p, len(fs.files[p]))
        ck.dg = dg
        stats["conc_preemption_points"] += sched.points
        stats["conc_switches"] += sched.switches
        stats["conc_cases_serial" if serial else "conc_cases_interleaved"] += 1
        stats["conc_clients"] += len(hist["clients"])
        for k, v in stats.items():
            ck.stats[k] += v
        ck.sample = {"concurrent": {"clients": hist["clients"], "strategy": hist["strategy"], "schedule_prefix": sched.trace[:40]}}
        return fsim.finish(ck, spec, nontrivial=stats["conc_acked_loads_ok"] > 0 and sched.switches > 0)
    finally:
        fs.hook = None
        fs.plan_hook = None
        fs.uninstall()


def run(spec):
    hist = spec.get("hist") or gen(spec["seed"])
    out = execute(hist, spec)
    if out is None:
        out = execute(hist, spec, serial=True)
        if out is None:
            raise RuntimeError("concurrent case stalls even when run serially")
        out["stats"]["concurrent_cases_fell_back_to_serial"] = 1
    if out.pop("_unsupported", False):
        # the code under test needs a real descriptor: nothing to interleave on the in-memory tree
        return {"digest": "", "nontrivial": False, "violations": [], "stats": {"concurrent_cases_unsupported_on_simfs": 1}}
    return out
