"""E4 `gphist` — C16: GP training solves the documented system for every training history.

Simulates a training session (store systems in any order / twice, set control points, add
reactions in batches, reset, re-add, fit, refit, likelihood) on the real MOLGP / MOLGP2 and
checks it against a small NumPy reference model recomputed from the data files.  No fault
dimension exists for this property; the only schedule-like nondeterminism (hash ordering)
is covered by re-running histories in a fresh interpreter under another PYTHONHASHSEED."""
import contextlib
import io
import json
import os
import shutil
import subprocess
import sys
import tempfile
from collections import Counter

import numpy as np

from cidersim import boot
from cidersim.faultat import FaultAt, draw_fault, for_op, remember  # noqa: F401
from cidersim.prng import Digest, Rng, derive

LEVEL = "exploration"
PROP = "C16"
BUDGET = {"quick": 170, "thorough": 1800}
CASE_TIMEOUT = 900
EPS = 1e-9  # numerical_epsilon documented in MOLGP


def assumptions():
    return [
        "training data are synthetic HDF5 files written with the chkfile layout the package's loaders read",
        "control points are taken as selected by the object (pivoted-Cholesky reduction itself is not re-derived)",
        "per-system covariance vectors of orbital-derivative entries are validated by central finite differences (1e-5), everything else directly (1e-10)",
        "alpha_mol is compared with tolerance scaled by cond(K); per-kernel alpha through the backward error of (Kmm+eps I) alpha = Kmn alpha_mol",
        "injected faults: a training call is interrupted at a seeded Python line inside the package (MemoryError) and the session recovers by reset_reactions + re-add / store again / fit again; damaged data files are not injected (the property promises nothing about them)",
    ]


# ---------------------------------------------------------------------------------
# synthetic data sets
# ---------------------------------------------------------------------------------
def gen_system(rng, cfg, sid, big=False):
    """returns dict of arrays for one system"""
    nprng = rng.np_rng()
    nspin = cfg["nspins"][sid]
    n = cfg["nsamps"][sid]
    mode = cfg["slmode"]
    rho = np.exp(nprng.uniform(-4.5, 1.0, size=(nspin, n)))
    # a few points below the 1e-6 low-density cutoff used by training
    kk = min(3, n // 8)
    if kk:
        rho[:, :kk] = 1e-8
        if nspin == 2:
            # points where only ONE spin channel is below the cutoff (radical tails): the
            # SEP mask is per channel, the NPOL/POL mask is on the total density
            rho[0, kk : 2 * kk] = 1e-8
            rho[1, 2 * kk : 3 * kk] = 3e-7
            rho[0, 2 * kk : 3 * kk] = 3e-7
    tail = []
    if cfg.get("norm0") and n >= 40:
        # diffuse tail: densities on either side of the cutoff (so that the *normalised* density
        # feature and the raw density fall on different sides of it) with the large quadrature
        # weights such points carry
        tail = list(range(3 * kk, 3 * kk + 8))
        rho[:, tail] = np.array([1.5e-7, 3e-7, 6e-7, 9e-7, 1.2e-6, 2.5e-6, 5e-6, 7e-6])[None, :] / nspin
    s2 = np.exp(nprng.uniform(-5, 2, size=(nspin, n)))
    desc = np.zeros((nspin, 3, n))
    desc[:, 0] = rho
    C = 4 * (3 * np.pi**2) ** (2.0 / 3)
    sigma = s2 * C * rho ** (8.0 / 3)
    CF = 0.3 * (3 * np.pi**2) ** (2.0 / 3)
    tauw = sigma / (8 * rho)
    tau = tauw + CF * rho ** (5.0 / 3) * np.exp(nprng.uniform(-3, 1.5, size=(nspin, n)))
    if mode == "npa":
        desc[:, 1] = s2
        desc[:, 2] = (tau - tauw) / (CF * rho ** (5.0 / 3))
    else:
        desc[:, 1] = sigma
        desc[:, 2] = tau
    nnl = cfg["n_nldf"]
    nl = np.exp(nprng.uniform(-3, 1.5, size=(nspin, nnl, n))) * rho[:, None, :] ** 0.0
    wt = np.abs(nprng.normal(size=n)) * 0.05 + 1e-3
    if tail:
        wt[tail] *= 300.0
    val = -0.74 * (rho.mean(0)) ** (4.0 / 3) * (1 + 0.2 * nprng.normal(size=n))
    nsd = cfg.get("n_sdmx", 0)
    sd = np.exp(np.random.default_rng(int(nprng.integers(0, 2**31)) if nsd else 0).uniform(-3, 1.0, size=(nspin, nsd, n))) if nsd else np.zeros((nspin, 0, n))
    d = {
        "nspin": nspin,
        "wt": wt,
        "val": val,
        "desc_sl": desc,
        "desc_nl": nl,
        "desc_sd": sd,
        "e_tot_orig": float(nprng.normal() - 5.0),
        "exc_orig": float(nprng.normal() * 0.3 - 1.0),
    }
    # rho_data for MOLGP2 (libxc baselines): consistent with desc
    rd = np.zeros((nspin, 5, n))
    rd[:, 0] = rho
    g = nprng.normal(size=(nspin, 3, n))
    g /= np.sqrt((g**2).sum(1, keepdims=True))
    rd[:, 1:4] = g * np.sqrt(sigma)[:, None, :]
    rd[:, 4] = tau
    d["rho_data"] = rd * nspin  # the package divides by nspin
    if cfg["deriv"]:
        dd = {}
        dv = {}
        drd = {}
        for occ in ("O", "U"):
            dd[occ] = {}
            dv[occ] = {}
            drd[occ] = {}
            for num in range(cfg["norb"]):
                s = int(nprng.integers(0, nspin))
                a_sl = nprng.normal(size=(3, n)) * desc[s] * 0.1
                a_nl = nprng.normal(size=(nnl, n)) * nl[s] * 0.1
                dr = nprng.normal(size=(5, n)) * rd[s] * 0.1
                if nspin == 2:
                    dd[occ][str(num)] = {"sl": [s, a_sl], "nl": [s, a_nl]}
                    drd[occ][str(num)] = [s, dr]
                else:
                    dd[occ][str(num)] = {"sl": a_sl, "nl": a_nl}
                    drd[occ][str(num)] = dr
                dv[occ][str(num)] = float(nprng.normal() * 0.2)
        d["ddesc"] = dd
        d["dval"] = dv
        d["drho_data"] = drd
    return d


def write_system(ddir, sid, d, cfg):
    from pyscf.lib import chkfile

    ref = {"wt": d["wt"], "val": d["val"], "e_tot_orig": d["e_tot_orig"], "exc_orig": d["exc_orig"], "nspin": d["nspin"], "rho_data": d["rho_data"]}
    if cfg["deriv"]:
        ref["dval"] = d["dval"]
        ref["drho_data"] = d["drho_data"]
    chkfile.dump(os.path.join(ddir["REF"], sid + ".hdf5"), "train_data", ref)
    sl = {"desc": d["desc_sl"]}
    if cfg["deriv"]:
        sl["ddesc"] = {o: {k: v["sl"] for k, v in dd.items()} for o, dd in d["ddesc"].items()}
    chkfile.dump(os.path.join(ddir["SL"], sid + ".hdf5"), "train_data", sl)
    if cfg["n_nldf"]:
        nl = {"desc": d["desc_nl"]}
        if cfg["deriv"]:
            nl["ddesc"] = {o: {k: v["nl"] for k, v in dd.items()} for o, dd in d["ddesc"].items()}
        chkfile.dump(os.path.join(ddir["NLDF"], sid + ".hdf5"), "train_data", nl)
    if cfg.get("n_sdmx"):
        chkfile.dump(os.path.join(ddir["SDMX"], sid + ".hdf5"), "train_data", {"desc": d["desc_sd"]})


# ---------------------------------------------------------------------------------
# model construction
# ---------------------------------------------------------------------------------
def make_settings(cfg):
    from ciderpress.dft import settings as S

    sl = S.SemilocalSettings(cfg["slmode"])
    nldf = None
    if cfg["n_nldf"]:
        specs = ["se", "se_ar2", "se_a2r4"][: cfg["n_nldf"]]
        nldf = S.NLDFSettingsVJ("MGGA", [1.0, 0.03125, 0.03125], "one", specs, [[1.0, 0.03125, 0.03125], [2.0, 0.0625, 0.03125], [0.5, 0.0, 0.0625]][: cfg["n_nldf"]])
    sdmx = S.SDMXSettings([0, 1, 2][: cfg["n_sdmx"]]) if cfg.get("n_sdmx") else None
    st = S.FeatureSettings(sl_settings=sl, nldf_settings=nldf, sdmx_settings=sdmx)
    if cfg["normalize"]:
        st.assign_reasonable_normalizer()
        if cfg.get("norm0"):
            # a normaliser on the density feature itself (supported; the recommended list has None there)
            from ciderpress.dft import feat_normalizer as FN

            lst0 = list(st.normalizers._normalizers) if hasattr(st.normalizers, "_normalizers") else list(st.get_reasonable_normalizer())
            lst0[0] = FN.ConstantNormalizer(float(cfg["norm0"]))
            st.normalizers = FN.FeatNormalizerList(lst0, slmode=sl.mode)
        kinds = cfg.get("norm_kinds")
        if kinds:
            # value-dependent normalisers on the nonlocal features (the recommended set for
            # these settings holds constants only): their chain rule enters every
            # orbital-derivative covariance
            from ciderpress.dft import feat_normalizer as FN

            lst = list(st.get_reasonable_normalizer())
            if cfg.get("norm0"):
                lst[0] = FN.ConstantNormalizer(float(cfg["norm0"]))
            for j, kd in enumerate(kinds[: cfg["n_nldf"]]):
                k, c1, c2, p1, p2 = kd
                if k == "density":
                    lst[3 + j] = FN.DensityNormalizer(c1, p1)
                elif k == "inhom":
                    lst[3 + j] = FN.InhomogeneityNormalizer(c1, c2, p2)
                elif k == "general":
                    lst[3 + j] = FN.GeneralNormalizer(c1, c2, p1, p2)
                elif k == "const":
                    lst[3 + j] = FN.ConstantNormalizer(c1)
            st.normalizers = FN.FeatNormalizerList(lst, slmode=sl.mode)
    return st


def make_kernels(cfg, settings):
    from ciderpress.dft import baselines as B
    from ciderpress.dft import transform_data as td
    from ciderpress.models.dft_kernel import DFTKernel, DFTKernel2
    from ciderpress.models.kernels import DiffConstantKernel, DiffRBF, DiffWhiteKernel

    out = []
    for kc in cfg["kernels"]:
        maps = []
        if cfg["slmode"] == "npa":
            maps = [td.UMap(1, 0.5), td.TMap(1, 2)]
        else:
            maps = [td.SLXMap(0, 1, 0.5), td.SLTMap(0, 2)]
        for j in range(cfg["n_nldf"]):
            maps.append(td.UMap(3 + j, kc["gammas"][j]))
        for j in range(cfg.get("n_sdmx", 0)):
            maps.append(td.UMap(3 + cfg["n_nldf"] + j, kc["gammas"][(j + 1) % 3]))
        fl = td.FeatureList(maps)
        kern = DiffConstantKernel(kc["scale"], constant_value_bounds="fixed") * DiffRBF(length_scale=np.asarray(kc["ls"][: fl.nfeat]), length_scale_bounds="fixed")
        if kc.get("form") == "rbf+white":
            # a white term: k(X, Y) has no nugget, k(X) alone would
            kern = kern + DiffWhiteKernel(noise_level=kc.get("white", 1e-3), noise_level_bounds="fixed")
        if cfg["version"] == 1:
            k = DFTKernel(kern, fl, kc["mode"], B.BASELINE_CODES[kc["mul"]], B.BASELINE_CODES[kc["add"]], ctrl_tol=kc["ctrl_tol"], ctrl_nmax=kc["ctrl_nmax"], component=kc["component"])
        else:
            k = DFTKernel2(kern, fl, kc["mode"], kc["mul"], kc["add"], ctrl_tol=kc["ctrl_tol"], ctrl_nmax=kc["ctrl_nmax"], component=kc["component"])
        out.append(k)
    return out


def make_gp(cfg):
    from ciderpress.models.train import MOLGP, MOLGP2

    st = make_settings(cfg)
    ks = make_kernels(cfg, st)
    cls = MOLGP if cfg["version"] == 1 else MOLGP2
    return cls(ks, st, default_noise=cfg["default_noise"]), st


def gen_cfg(rng):
    version = rng.weighted([(1, 3), (2, 1)])
    slmode = "npa" if version == 1 else rng.choice(["npa", "nst"])
    if version == 1:
        slmode = rng.choice(["npa", "nst"])
    nsys = rng.randint(3, 7)
    n_nldf = rng.choice([0, 1, 2])
    n_sdmx_draw = rng.choice([0, 0, 1, 2])
    nk = rng.weighted([(1, 3), (2, 3), (3, 2)])
    kernels = []
    # any number of exchange and non-exchange components, incl. none of either kind
    # (opposite-/same-spin correlation pairs, an xc-only model, an exchange-only model)
    first = rng.weighted([("x", 5), ("c", 1), ("xc", 1)])
    for i in range(nk):
        comp = first if i == 0 else rng.choice(["c", "xc", "x", "c"])
        mode = rng.choice(["SEP", "NPOL", "POL"]) if version == 1 else rng.choice(["SEP", "NPOL"])
        if comp != "x" and mode == "POL":
            # DFTKernel.Nctrl returns 2 for POL control arrays, so exchange-only reactions give
            # a correlation kernel zero rows of the wrong length and fit() raises (a rejection,
            # not a wrong answer; noted in DESIGN.md): not generated
            mode = "NPOL"
        if version == 1:
            mul = rng.choice(["LDA_X", "ONE"])
            add = rng.choice(["ZERO", "GGA_X_PBE", "LDA_X"]) if slmode == "npa" else rng.choice(["ZERO", "LDA_X"])
        else:
            mul = "LDA_X"
            add = rng.choice([None, "GGA_X_PBE"])
        kernels.append(
            {
                "mode": mode,
                "component": comp,
                "mul": mul,
                "add": add,
                "scale": rng.choice([0.5, 1.0, 2.0]),
                "ls": [rng.uniform(0.25, 0.8) for _ in range(8)],
                "gammas": [rng.choice([0.25, 0.5, 1.0]) for _ in range(3)],
                "ctrl_tol": rng.choice([1e-5, 1e-4, 1e-3]),
                "ctrl_nmax": rng.randint(6, 24),
                "form": rng.choice(["rbf", "rbf", "rbf", "rbf+white"]),
                "white": rng.choice([1e-4, 1e-3, 1e-2]),
            }
        )
    # kernel order is free: a correlation kernel may precede the exchange kernel
    rng.shuffle(kernels)
    # MOLGP2's orbital-derivative path raises TypeError/IndexError on the unchanged tree
    # (indexes a (spin, array) tuple; noted in DESIGN.md): derivative entries only with MOLGP
    deriv = rng.chance(0.4) and version == 1 and not any(k["mode"] == "POL" for k in kernels)
    nsamps = [rng.choice([40, 77, 150, 301]) for _ in range(nsys)]
    if rng.chance(0.3):
        # around / across the internal 10000-sample chunk (exact multiples and off-by-one)
        nsamps[rng.below(nsys)] = rng.choice([10050, 10050, 9999, 10000, 10001, 20000, 20001])
    if rng.chance(0.1):
        nsamps[rng.below(nsys)] = rng.choice([1, 2, 3])  # a system with next to no samples
    return {
        "version": version,
        "slmode": slmode,
        "nsys": nsys,
        "n_nldf": n_nldf,
        # a third feature family (its own data directory): not together with orbital-derivative
        # entries, which the synthetic data provide for the first two families only
        "n_sdmx": 0 if deriv else n_sdmx_draw,
        "normalize": rng.chance(0.7),
        "kernels": kernels,
        "deriv": bool(deriv),
        "norb": 2,
        "nspins": [rng.choice([1, 2]) for _ in range(nsys)],
        "nsamps": nsamps,
        "default_noise": rng.choice([0.03, 0.01, 0.1]),
        "dseed": rng.below(10**9),
        "id_style": rng.choice(["plain", "plain", "dotted"]),
        "norm0": rng.choice([None, None, None, 2.0, 0.25, 8.0]),
        "norm_kinds": [[rng.choice(["const", "density", "inhom", "general"]), rng.choice([0.5, 1.0, 2.0]), rng.choice([0.25, 1.0]), rng.choice([-0.5, 0.5, 1.0]), rng.choice([-1, 1, 2])] for _ in range(2)] if rng.chance(0.6) else None,
    }


def gen_reaction(rng, cfg, ids):
    k = rng.randint(1, min(3, len(ids)))
    structs = rng.sample(ids, k)
    if rng.chance(0.2):
        structs.append(rng.choice(structs))  # the same system may be listed twice
    counts = [rng.choice([1, -1, 2, -2, 3, 0.5]) for _ in structs]
    has_c = any(kc["component"] != "x" for kc in cfg["kernels"])
    # total-energy (mode 2) data may also train an exchange-only model
    mode = 2 if rng.chance(0.5 if has_c else 0.25) else 0
    rxn = {"structs": list(structs), "counts": counts}
    if cfg["deriv"] and mode == 0 and rng.chance(0.4):
        j = rng.below(len(structs))
        rxn["structs"][j] = [structs[j], [rng.choice(["O", "U"]), rng.below(cfg["norb"])]]
    if mode == 2:
        rxn["energy"] = rng.uniform(-50, 50)
        if rng.chance(0.5):
            rxn["unit"] = rng.choice([1.0, 0.0367493, 0.00159360109742136])
    c = rng.below(5)
    if c == 0:
        rxn["noise"] = rng.choice([0.01, 0.05, 0.2, 0.0])  # 0.0: an exact constraint
    elif c == 1:
        rxn["noise_factor"] = rng.choice([0.5, 2.0, 4.0, 0])
    if rng.chance(0.25) or (rxn.get("noise") == 0.0 and rng.chance(0.6)) or (rxn.get("noise_factor") == 0 and rng.chance(0.6)):
        rxn["noise_rel_factor"] = rng.choice([0.01, 0.1])
    if rng.chance(0.25):
        rxn["weight"] = rng.choice([0.25, 2.0, 4.0])
    return [mode, rxn]


def sys_ids(cfg):
    """names of the training systems.  A name is an arbitrary string (the package joins it with
    the data directory and appends ".hdf5"): "dotted" gives look-alike pairs such as sys0 /
    sys0.t1 (a spin state, a geometry label)."""
    if cfg.get("id_style") == "dotted":
        return ["sys%d" % (i // 2) if i % 2 == 0 else "sys%d.t%d" % (i // 2, i) for i in range(cfg["nsys"])]
    return ["sys%d" % i for i in range(cfg["nsys"])]


def gen_history(seed):
    rng = Rng(derive("gphist", seed))
    cfg = gen_cfg(rng)
    ids = sys_ids(cfg)
    ops = []
    big_enough = [i for i, n_ in zip(ids, cfg["nsamps"]) if n_ >= 40] or ids  # control points come from real samples
    ctrl_ids = rng.sample(big_enough, rng.randint(1, min(3, len(big_enough))))
    ops.append({"op": "ctrl", "ids": ctrl_ids, "reduce": bool(rng.chance(0.7)), "npick": rng.choice([1, 2, 3]) if rng.chance(0.12) else rng.randint(5, 14), "pseed": rng.below(10**6)})
    # store all systems, in batches, some twice
    order = list(ids)
    rng.shuffle(order)
    while order:
        b = rng.randint(1, len(order))
        batch, order = order[:b], order[b:]
        if rng.chance(0.2):
            batch = batch + [rng.choice(ids[: len(ids)])]
        # exchange-only storing is offered for models that have an exchange component (with
        # none there is nothing for it to compute; the documentation scopes it that way)
        has_x = any(kc["component"] == "x" for kc in cfg["kernels"])
        ops.append({"op": "store", "ids": batch, "get_correlation": bool(rng.chance(0.75)) or not has_x})
    nrx = 0
    many = bool(rng.chance(0.03))  # a training set of realistic size (hundreds of reactions)
    for _ in range(rng.randint(3, 9)):
        c = rng.weighted([("add", 10), ("fit", 6), ("reset", 2), ("lik", 4), ("store", 2), ("opt", 1 if nrx > 0 and any(o["op"] == "fit" for o in ops) else 0)])
        if c == "opt":
            ops.append({"op": "opt", "sigma_min": rng.choice([0.25, 0.5, 1.0, 2.0])})
            continue
        if c == "add":
            ops.append({"op": "add", "rxns": [gen_reaction(rng, cfg, ids) for _ in range(rng.randint(60, 150) if many else rng.randint(1, 5))]})
            nrx += 1
            if rng.chance(0.07):
                # the call dies part-way (out of memory, Ctrl-C): the session recovers the
                # documented way - reset_reactions() and add the earlier reactions again
                ops[-1]["fault"] = draw_fault(rng, 300)
        elif c == "fit":
            if nrx == 0:
                ops.append({"op": "add", "rxns": [gen_reaction(rng, cfg, ids) for _ in range(rng.randint(2, 5))]})
                nrx += 1
            x = None if rng.chance(0.6) else [rng.uniform(0.5, 1.5), rng.uniform(0.3, 1.2)]
            ops.append({"op": "fit", "x": x, "sigma_min": rng.choice([0.25, 0.5, 0.1])})
            if rng.chance(0.07):
                ops[-1]["fault"] = draw_fault(rng, 200)  # interrupted fit, then fitted again
        elif c == "reset":
            ops.append({"op": "reset"})
            nrx = 0
            if rng.chance(0.5):
                # while no reaction is in: the data files of one system are replaced by a new
                # calculation (same arrays shapes, so the same file size; the copy tool keeps
                # the time stamps) and the system is stored again
                sid_ = rng.choice(ids)
                ops.append({"op": "rewrite", "id": sid_, "rseed": rng.below(10**6)})
                ops.append({"op": "store", "ids": [sid_], "get_correlation": True})
        elif c == "lik":
            ops.append({"op": "lik", "x": None if rng.chance(0.5) else [rng.uniform(0.5, 1.5), rng.uniform(0.3, 1.2)], "sigma_min": rng.choice([0.25, 0.5])})
        else:
            ops.append({"op": "store", "ids": [rng.choice(ids)]})
            if rng.chance(0.2):
                ops[-1]["fault"] = draw_fault(rng, 1500)  # interrupted store, then stored again
    if rng.chance(0.25):
        # somewhere after the first stores, another model is trained in the same process
        first_free = 1 + sum(1 for o in ops if o["op"] in ("ctrl", "store") and ops.index(o) < 4)
        ops.insert(rng.randint(min(first_free, len(ops)), len(ops)), {"op": "other"})
    if nrx == 0:
        ops.append({"op": "add", "rxns": [gen_reaction(rng, cfg, ids) for _ in range(3)]})
    ops.append({"op": "fit", "x": None, "sigma_min": 0.25})
    ops.append({"op": "lik", "x": None, "sigma_min": 0.25})
    if rng.chance(0.3):
        # retrain on the same objects with different control points (same count when not reduced)
        first = ops[0]
        ids2 = rng.sample(big_enough, len(first["ids"]))
        ops.append({"op": "ctrl", "ids": ids2, "reduce": first["reduce"], "npick": first["npick"], "pseed": rng.below(10**6)})
        ops.append({"op": "store", "ids": list(ids)})
        ops.append({"op": "add", "rxns": [gen_reaction(rng, cfg, ids) for _ in range(rng.randint(2, 5))]})
        ops.append({"op": "fit", "x": None, "sigma_min": 0.25})
        ops.append({"op": "lik", "x": None, "sigma_min": 0.25})
    # exact constraints (noise exactly 0) are kept to two per session: more of them than the
    # model has control points make the training matrix singular whatever the code does
    nzero = 0
    for o in ops:
        if o["op"] != "add":
            continue
        for _, rxn in o["rxns"]:
            exact = (rxn.get("noise") == 0.0 or (rxn.get("noise") is None and rxn.get("noise_factor") == 0)) and rxn.get("noise_rel_factor") is None
            if exact:
                nzero += 1
                if nzero > 2:
                    rxn.pop("noise_factor", None)
                    rxn["noise"] = 0.02
    # systems stored without correlation covariances must be stored again before a mode-2
    # reaction uses them (the documented workflow); insert those stores
    fixed = []
    cstored = set()
    for o in ops:
        if o["op"] == "ctrl":
            cstored = set()
        elif o["op"] == "store":
            if o.get("get_correlation", True):
                cstored |= set(o["ids"])
        elif o["op"] == "add":
            need = set()
            for mode, rxn in o["rxns"]:
                if mode == 2:
                    for st_ in rxn["structs"]:
                        sid = st_[0] if isinstance(st_, (list, tuple)) else st_
                        if sid not in cstored:
                            need.add(sid)
            if need:
                fixed.append({"op": "store", "ids": sorted(need), "get_correlation": True})
                cstored |= need
        fixed.append(o)
    return {"cfg": cfg, "ops": fixed}


# ---------------------------------------------------------------------------------
# reference model
# ---------------------------------------------------------------------------------
def tup(s):
    """JSON form [id, [occ, num]] -> (id, (occ, num))"""
    if isinstance(s, (list, tuple)):
        return (s[0], (s[1][0], int(s[1][1])))
    return s


_PKG_OBJS = {}


def rxn_to_pkg(r):
    """The package-format reaction object of r.  Created ONCE per reaction and handed to
    the package again on every re-add, as a user who keeps one reaction list does: a
    reaction dict the package scribbles on must not change what a later add means."""
    key = id(r)
    if key not in _PKG_OBJS or _PKG_OBJS[key][0] is not r:
        mode, rxn = r
        rxn = dict(rxn)
        rxn["structs"] = [tup(s) for s in rxn["structs"]]
        _PKG_OBJS[key] = (r, (mode, rxn))
    return _PKG_OBJS[key][1]


class Ref:
    """per-system quantities recomputed independently in one pass (no blocking)"""

    def __init__(self, cfg, data, gp, settings):
        self.cfg = cfg
        self.data = data
        self.gp = gp
        self.st = settings
        self.sys = {}

    def full_desc(self, d):
        parts = [d["desc_sl"]]
        if self.cfg["n_nldf"]:
            parts.append(d["desc_nl"])
        if self.cfg.get("n_sdmx"):
            parts.append(d["desc_sd"])
        return np.concatenate(parts, axis=1) if len(parts) > 1 else parts[0]

    def cov_base(self, kernel, desc, d):
        """(cov vector, baseline) for raw descriptors `desc` of system data d"""
        from ciderpress.dft.plans import get_rho_tuple_with_grad_cross

        X0T = self.st.normalizers.get_normalized_feature_vector(desc)
        wt = d["wt"]
        k = kernel.get_k(X0T)
        if self.cfg["version"] == 1:
            m, _ = kernel.multiplicative_baseline(X0T)
            a, _ = kernel.additive_baseline(X0T)
            if kernel.mode == "SEP":
                cond = X0T[:, 0] < 1e-6
                m = np.where(cond, 0.0, m)
                a = np.where(cond, 0.0, a)
                k = np.where(cond[None], 0.0, k)
                km = (k * m[None]).sum(1)
            else:
                cond = X0T[:, 0].sum(0) < 1e-6
                m = np.where(cond, 0.0, m)
                a = np.where(cond, 0.0, a)
                k = np.where(cond[None], 0.0, k)
                km = k * m[None]
        else:
            rho_data = d["rho_data"] / d["nspin"]
            rt = get_rho_tuple_with_grad_cross(rho_data, is_mgga=True)
            m = kernel.multiplicative_baseline(rt)[0]
            ares = kernel.additive_baseline(rt)
            a = np.zeros_like(m) if ares is None else ares[0]
            cond = rt[0] < 1e-6
            if kernel.mode == "SEP":
                m = np.where(cond, 0.0, m)
                a = np.where(cond, 0.0, a)
                k = np.where(cond[None], 0.0, k)
                km = (k * m[None]).sum(1)
            else:
                sc = cond[0] if cond.shape[0] == 1 else np.logical_and(cond[0], cond[1])
                m = np.where(sc, 0.0, m)
                a = np.where(sc, 0.0, a)
                k = np.where(sc[None], 0.0, k)
                km = k * m[None]
        cov = (km * wt).sum(axis=1)
        base = float((a * wt).sum())
        return cov, base

    def system(self, ik, sid):
        key = (ik, sid)
        if key not in self.sys:
            d = self.data[sid]
            kernel = self.gp.kernels[ik]
            cov, base = self.cov_base(kernel, self.full_desc(d), d)
            self.sys[key] = {"cov": cov, "base": base}
        return self.sys[key]

    def invalidate(self):
        self.sys = {}

    def fd_dcov(self, ik, sid, orb, h=1e-4):
        # h = 1e-4: the difference quotient of a sum over up to 10^4 weighted samples is
        # round-off dominated below that (error ~ 1e-12/h measured; 3e-6 relative at 1e-4)
        """central finite difference of (cov, base) along the orbital-derivative direction"""
        d = self.data[sid]
        kernel = self.gp.kernels[ik]
        desc = self.full_desc(d)
        ent = d["ddesc"][orb[0]][str(orb[1])]
        if d["nspin"] == 2:
            s = ent["sl"][0]
            dir_ = np.concatenate([ent["sl"][1], ent["nl"][1]], axis=0) if self.cfg["n_nldf"] else ent["sl"][1]
        else:
            s = 0
            dir_ = np.concatenate([ent["sl"], ent["nl"]], axis=0) if self.cfg["n_nldf"] else ent["sl"]
        outs = []
        for sg in (+1, -1):
            dp = desc.copy()
            dp[s] = dp[s] + sg * h * dir_
            d2 = d
            if self.cfg["version"] == 2:
                dr = d["drho_data"][orb[0]][str(orb[1])]
                dr = dr[1] if d["nspin"] == 2 else dr
                d2 = dict(d)
                rd = d["rho_data"].copy()
                rd[s] = rd[s] + sg * h * dr
                d2["rho_data"] = rd
            outs.append(self.cov_base(kernel, dp, d2))
        dcov = (outs[0][0] - outs[1][0]) / (2 * h)
        dbase = (outs[0][1] - outs[1][1]) / (2 * h)
        return dcov, dbase


# ---------------------------------------------------------------------------------
# executing a history
# ---------------------------------------------------------------------------------
def _quiet(fn, *a, **k):
    buf = io.StringIO()
    with contextlib.redirect_stdout(buf):
        return fn(*a, **k)


def exec_history(hist, workdir, collect=None, light=False):
    """run the history on the real objects; returns (violations, stats, digest, summary)"""
    cfg = hist["cfg"]
    viol = []
    stats = Counter()
    dg = Digest()
    _PKG_OBJS.clear()
    rp = {"property": PROP, "engine": "gphist", "case": {"kind": "history", "hist": hist}}

    def V(key, detail):
        viol.append({"key": key, "detail": detail, "replay": rp})

    ddir = {"REF": os.path.join(workdir, "REF"), "SL": os.path.join(workdir, "SL"), "NLDF": os.path.join(workdir, "NLDF") if cfg["n_nldf"] else None, "NLOF": None, "SDMX": os.path.join(workdir, "SDMX") if cfg.get("n_sdmx") else None, "HYB": None}
    for k, v in ddir.items():
        if v:
            os.makedirs(v, exist_ok=True)
    ids = sys_ids(cfg)
    drng = Rng(cfg["dseed"])
    data = {}
    for i, sid in enumerate(ids):
        data[sid] = gen_system(drng.fork(sid), cfg, i)
        write_system(ddir, sid, data[sid], cfg)
    gp, st = make_gp(cfg)
    ref = Ref(cfg, data, gp, st)
    rx_in = []  # reference list of reactions currently "in"
    stored = set()
    last_fit = None
    summary = {"alphas": [], "liks": []}

    def ref_labels_and_covs():
        """labels, noises and K_mn per kernel for the reactions currently in"""
        nk = len(gp.kernels)
        y = []
        noise = []
        rows = [[] for _ in range(nk)]
        for mode, rxn in rx_in:
            structs = [tup(s) for s in rxn["structs"]]
            lab = 0.0
            if mode == 0:
                for s, c in zip(structs, rxn["counts"]):
                    if isinstance(s, tuple):
                        lab += c * data[s[0]]["dval"][s[1][0]][str(s[1][1])]
                    else:
                        lab += c * float((data[s]["val"] * data[s]["wt"]).sum())
            for ik, kern in enumerate(gp.kernels):
                is_x = kern.component == "x"
                if is_x or mode == 2:
                    row = 0.0
                    for s, c in zip(structs, rxn["counts"]):
                        if isinstance(s, tuple):
                            # derivative entries: the package's per-system vectors (validated by FD)
                            row = row + c * kern.dcov_dict[s[0]][s[1]]
                            lab -= c * kern.dbase_dict[s[0]][s[1]]
                        else:
                            q = ref.system(ik, s)
                            row = row + c * q["cov"]
                            lab -= c * q["base"]
                    rows[ik].append(np.asarray(row, dtype=float))
                else:
                    rows[ik].append(np.zeros(kern.Nctrl))
            if mode == 2:
                unit = rxn.get("unit")
                if unit is None:
                    unit = 0.00159360109742136
                lab += rxn["energy"] * unit
                for s, c in zip(structs, rxn["counts"]):
                    lab -= c * (data[s]["e_tot_orig"] - data[s]["exc_orig"])
            if rxn.get("noise") is not None:
                nz = rxn["noise"]
            elif rxn.get("noise_factor") is not None:
                nz = rxn["noise_factor"] * cfg["default_noise"]
            else:
                nz = cfg["default_noise"]
            if rxn.get("noise_rel_factor") is not None:
                nz += rxn["noise_rel_factor"] * abs(lab)
            if rxn.get("weight") is not None:
                nz /= np.sqrt(rxn["weight"])
            y.append(lab)
            noise.append(nz)
        return np.array(y), np.array(noise), [np.stack(r).T for r in rows]

    def ref_solve(x, sigma_min):
        y, noise, Kmn = ref_labels_and_covs()
        n = y.size
        Knm_i_mn = np.zeros((n, n))
        Kimn = []
        Kimn_raw = []
        condmm = 1.0
        Kmms = []
        for ik, kern in enumerate(gp.kernels):
            if kern.mode == "POL":
                X = kern.X1ctrl
                Kmm = kern.kernel(X[0], X[0]) * kern.kernel(X[1], X[1]) + kern.kernel(X[0], X[1]) * kern.kernel(X[1], X[0])
            else:
                Kmm = kern.kernel(kern.X1ctrl, kern.X1ctrl)
            A = Kmm + EPS * np.identity(Kmm.shape[0])
            Kmms.append(A)
            w, v = np.linalg.eigh(0.5 * (A + A.T))
            condmm = max(condmm, float(w.max() / max(w.min(), 1e-300)))
            sol = v.dot((v.T.dot(Kmn[ik])) / w[:, None])
            Kimn.append(sol)
            Kimn_raw.append(sol)
            Knm_i_mn += Kmn[ik].T.dot(sol)
        nn = noise**2
        if x is not None:
            Knm_i_mn = Knm_i_mn * x[0] ** 2
            Kimn = [x[0] ** 2 * k for k in Kimn]
            nn = nn * (sigma_min + x[1] ** 2)
        K = Knm_i_mn + np.diag(nn) + EPS * np.identity(n)
        K = 0.5 * (K + K.T)
        w, v = np.linalg.eigh(K)
        condK = float(w.max() / max(w.min(), 1e-300))
        amol = v.dot(v.T.dot(y) / w)
        alphas = [k.dot(amol) for k in Kimn]
        return {"y": y, "noise": noise, "Kmn": Kmn, "Kcov": Knm_i_mn, "K": K, "amol": amol, "alphas": alphas, "condK": condK, "condmm": condmm, "Kmms": Kmms, "x": x, "Kimn_raw": Kimn_raw}

    class _Abort(Exception):
        pass

    cur = {"step": -1}

    def call(opname, fn, *a, **k):
        """a package call that raises under a valid history fails to do what the property says"""
        try:
            return _quiet(fn, *a, **k)
        except Exception as e:
            import traceback

            tb = traceback.extract_tb(e.__traceback__)
            where = "%s:%s" % (os.path.basename(tb[-1].filename), tb[-1].name) if tb else "?"
            V("op-raises:%s:%s:%s" % (opname, type(e).__name__, where), "step %d: %s" % (cur["step"], str(e)[:200]))
            raise _Abort()

    def interrupted(op, fn, *a, **k):
        """run fn under the op's injected failure; True if the failure fired (un-acknowledged
        call).  A failure point beyond the end of the call means the call simply completed."""
        inj = for_op(op)
        try:
            with inj:
                _quiet(fn, *a, **k)
        except Exception as e:
            if inj.fired:
                remember(op, inj)
                stats["calls_interrupted_by_injected_failure"] += 1
                stats["fault_site_" + inj.where] += 1
                return True
            import traceback

            tb = traceback.extract_tb(e.__traceback__)
            where = "%s:%s" % (os.path.basename(tb[-1].filename), tb[-1].name) if tb else "?"
            V("op-raises:%s:%s:%s" % (op["op"], type(e).__name__, where), "step %d: %s" % (cur["step"], str(e)[:200]))
            raise _Abort()
        return False

    for step, op in enumerate(hist["ops"]):
      try:
          cur["step"] = step
          c = op["op"]
          stats["op_" + c] += 1
          dg.add(c)
          if c == "other":
              # a second model is trained in the same process on OTHER data that use the same
              # system ids (another basis set / another functional's reference values)
              ddir2 = {k: (os.path.join(workdir, "other", k) if v else None) for k, v in ddir.items()}
              for v in ddir2.values():
                  if v:
                      os.makedirs(v, exist_ok=True)
              drng2 = Rng(cfg["dseed"] + 17)
              data2 = {}
              for i2, sid in enumerate(ids):
                  data2[sid] = gen_system(drng2.fork(sid), cfg, i2)
                  write_system(ddir2, sid, data2[sid], cfg)
              gp2, st2 = make_gp(cfg)
              ref2 = Ref(cfg, data2, gp2, st2)
              big = [sid for sid, n_ in zip(ids, cfg["nsamps"]) if n_ >= 40] or ids
              X2 = st2.normalizers.get_normalized_feature_vector(ref2.full_desc(data2[big[0]]))
              X2 = np.ascontiguousarray(X2[..., 8 : 8 + 24])[:1]
              _quiet(gp2.set_control_points, [X2], reduce=True)
              _quiet(gp2.store_mol_covs, ddir2, list(ids))
              _quiet(gp2.add_reactions, [(0, {"structs": [ids[0]], "counts": [1.0]}), (0, {"structs": [ids[-1]], "counts": [2.0]})])
              _quiet(gp2.fit)
              stats["sessions_of_a_second_model_in_between"] += 1
              continue
          if c == "ctrl":
              X0T_list = []
              for sid in op["ids"]:
                  X = st.normalizers.get_normalized_feature_vector(ref.full_desc(data[sid]))
                  if not op["reduce"]:
                      r = np.random.default_rng(op["pseed"])
                      idx = np.sort(r.choice(np.arange(8, X.shape[-1]), size=min(op["npick"], X.shape[-1] - 8), replace=False))
                      X = np.ascontiguousarray(X[..., idx])
                  else:
                      X = np.ascontiguousarray(X[..., 8 : 8 + 4 * op["npick"]])
                  if not (derive("ctrl-spinful", op["pseed"], sid) % 2):
                      # half of the systems contribute the first channel only, the others both
                      # (spin-polarised control points: alpha and beta feature vectors differ)
                      X = X[:1]
                  elif X.shape[0] == 2:
                      stats["spin_polarised_control_sets"] += 1
                  X0T_list.append(X)
              call("set_control_points", gp.set_control_points, X0T_list, reduce=op["reduce"])
              ref.invalidate()
              stored = set()
              rx_in = []
              _quiet(gp.reset_reactions)
              for kern in gp.kernels:
                  dg.add_array(np.asarray(kern.X1ctrl))
              stats["ctrl_points"] += sum(k.Nctrl for k in gp.kernels)
          elif c == "store":
              gc = op.get("get_correlation", True)
              if op.get("fault") and interrupted(op, gp.store_mol_covs, ddir, list(op["ids"]), get_correlation=gc):
                  pass  # recovery: the same systems are simply stored again (below)
              if not op.get("fault") or True:
                  call("store_mol_covs", gp.store_mol_covs, ddir, list(op["ids"]), get_correlation=gc)
              if not gc:
                  stats["stores_exchange_only"] += 1
              for sid in op["ids"]:
                  stored.add(sid)
              # per-system vectors against the one-pass reference (bookkeeping attributes named in
              # the property's anchors; if a refactor renames them these observations are
              # skipped and the black-box checks on alpha / likelihood remain)
              for ik, kern in enumerate(gp.kernels):
                  if not gc and kern.component != "x":
                      continue
                  if not all(hasattr(kern, a) for a in ("cov_dict", "base_dict", "dcov_dict", "dbase_dict")):
                      stats["internal_state_unavailable"] += 1
                      continue
                  for sid in set(op["ids"]):
                      q = ref.system(ik, sid)
                      got = np.asarray(kern.cov_dict[sid])
                      sc = max(np.abs(q["cov"]).max(), 1e-300)
                      if got.shape != q["cov"].shape or np.abs(got - q["cov"]).max() > 1e-10 * sc:
                          V("system:cov_dict:mismatch", "kernel %d %s: max diff %.3g (scale %.3g) nsamp=%d" % (ik, sid, np.abs(got - q["cov"]).max() if got.shape == q["cov"].shape else -1, sc, data[sid]["wt"].size))
                      if abs(kern.base_dict[sid] - q["base"]) > 1e-10 * max(1.0, abs(q["base"])):
                          V("system:base_dict:mismatch", "kernel %d %s: %r vs %r" % (ik, sid, kern.base_dict[sid], q["base"]))
                      stats["system_checks"] += 1
                      if cfg["deriv"] and not light:
                          for orb in [("O", 0), ("U", cfg["norb"] - 1)]:
                              dcov, dbase = ref.fd_dcov(ik, sid, orb)
                              got = np.asarray(kern.dcov_dict[sid][orb])
                              sc = max(np.abs(dcov).max(), np.abs(got).max(), 1e-12)
                              if np.abs(got - dcov).max() > 2e-4 * sc + 1e-9:
                                  V("system:dcov_dict:fd-mismatch", "kernel %d %s %s: max diff %.3g scale %.3g" % (ik, sid, orb, np.abs(got - dcov).max(), sc))
                              gb = kern.dbase_dict[sid][orb]
                              if abs(gb - dbase) > 2e-4 * max(abs(dbase), abs(gb), 1e-6) + 1e-9:
                                  V("system:dbase_dict:fd-mismatch", "kernel %d %s %s: %r vs %r" % (ik, sid, orb, gb, dbase))
                              stats["fd_checks"] += 1
              ex = getattr(gp, "exx_ref_dict", None)
              for sid in set(op["ids"]) if ex is not None else []:
                  want = float((data[sid]["val"] * data[sid]["wt"]).sum())
                  if sid not in ex:
                      V("system:exx_ref:missing", "%s: store_mol_covs(get_correlation=%s) did not store the reference energy (kernel order %s)" % (sid, gc, [k.component for k in gp.kernels]))
                  elif abs(ex[sid] - want) > 1e-12 * max(1, abs(want)):
                      V("system:exx_ref:mismatch", "%s %r vs %r" % (sid, ex[sid], want))
          elif c == "add":
              if op.get("fault") and interrupted(op, gp.add_reactions, [rxn_to_pkg(r) for r in op["rxns"]]):
                  # un-acknowledged batch: recover as documented (reset, add the earlier ones again)
                  _quiet(gp.reset_reactions)
                  if rx_in:
                      call("add_reactions", gp.add_reactions, [rxn_to_pkg(r) for r in rx_in])
                  stats["recoveries_after_interrupted_add"] += 1
              else:
                  if not op.get("fault"):
                      call("add_reactions", gp.add_reactions, [rxn_to_pkg(r) for r in op["rxns"]])
                  rx_in += [r for r in op["rxns"]]
                  stats["reactions_added"] += len(op["rxns"])
          elif c == "rewrite":
              if rx_in:
                  continue  # (only generated right after a reset; a minimised history may differ)
              sid = op["id"]
              paths = [os.path.join(v_, sid + ".hdf5") for v_ in ddir.values() if v_]
              stamps = {p_: os.stat(p_) for p_ in paths}
              data[sid] = gen_system(Rng(derive("gphist-rewrite", cfg["dseed"], sid, op["rseed"])), cfg, sys_ids(cfg).index(sid))
              write_system(ddir, sid, data[sid], cfg)
              same = all(os.stat(p_).st_size == stamps[p_].st_size for p_ in paths)
              for p_ in paths:
                  os.utime(p_, ns=(stamps[p_].st_atime_ns, stamps[p_].st_mtime_ns))
              ref.invalidate()
              stored.discard(sid)
              stats["data_files_replaced_in_place"] += 1
              stats["data_files_replaced_with_same_size_and_time_stamp"] += int(same)
          elif c == "reset":
              _quiet(gp.reset_reactions)
              rx_in = []
          elif c in ("fit", "opt"):
              if not rx_in:
                  continue  # nothing to fit (the only batch so far was interrupted)
              if c == "opt":
                  # hyper-parameter optimisation followed by the package's own refit: afterwards the
                  # weights must solve the documented system for the optimum that scipy returned
                  # and the noise floor the caller asked for.  The optimum is observed at the
                  # scipy boundary (the package only prints it).
                  if last_fit is None or getattr(gp, "alpha_mol_", "x") is None:
                      continue
                  import scipy.optimize as _so

                  seen_res = []
                  _orig_min = _so.minimize

                  def _spy(*a, **k):
                      r_ = _orig_min(*a, **k)
                      seen_res.append(r_)
                      return r_

                  _so.minimize = _spy
                  singular_trial = False
                  try:
                      try:
                          _quiet(gp.optimize_cov_and_noise_, refit=True, sigma_min=op["sigma_min"])
                      except np.linalg.LinAlgError:
                          # the optimiser tried hyper-parameters for which the training matrix is
                          # not numerically positive definite (exact constraints, a vanishing
                          # covariance scale): the property promises nothing there
                          singular_trial = True
                      except Exception:
                          call("optimize_cov_and_noise_", gp.optimize_cov_and_noise_, refit=True, sigma_min=op["sigma_min"])
                  finally:
                      _so.minimize = _orig_min
                  if singular_trial:
                      stats["optimiser_hit_singular_trial_point_history_ends"] += 1
                      last_fit = None  # the session is over: no end-of-history invariants either
                      break
                  if not seen_res:
                      stats["internal_state_unavailable"] += 1
                      continue
                  op = dict(op, op="fit", x=[float(v_) for v_ in seen_res[-1].x])
                  stats["optimiser_refits_checked"] += 1
              else:
                  if op.get("fault") and interrupted(op, gp.fit, x=None if op["x"] is None else np.array(op["x"]), sigma_min=op["sigma_min"]):
                      stats["refits_after_interrupted_fit"] += 1
                  call("fit", gp.fit, x=None if op["x"] is None else np.array(op["x"]), sigma_min=op["sigma_min"])
              R = ref_solve(op["x"], op["sigma_min"])
              last_fit = (R, op)
              stats["fits"] += 1
              stats["reactions_in_fit"] += len(rx_in)
              if hasattr(gp, "rxn_ref_list"):
                  y = np.asarray(gp.rxn_ref_list, dtype=float)
                  if y.shape != R["y"].shape or np.abs(y - R["y"]).max() > 1e-9 * max(1.0, np.abs(R["y"]).max()):
                      V("fit:labels:mismatch", "step %d: max diff %.3g" % (step, np.abs(y - R["y"]).max() if y.shape == R["y"].shape else -1))
              else:
                  stats["internal_state_unavailable"] += 1
              if hasattr(gp, "rxn_noise_list"):
                  nz = np.asarray(gp.rxn_noise_list, dtype=float)
                  if nz.shape != R["noise"].shape or np.abs(nz - R["noise"]).max() > 1e-10 * max(1.0, np.abs(R["noise"]).max()):
                      V("fit:noise:mismatch", "step %d" % step)
              else:
                  stats["internal_state_unavailable"] += 1
              have_amol = getattr(gp, "alpha_mol_", None) is not None
              am = np.asarray(gp.alpha_mol_) if have_amol else R["amol"]
              # (the reaction covariance is itself the result of a solve with K_mm: its relative
              # error eps*cond(K_mm) is amplified by cond(K) in the weights)
              tol = max(1e-12 * R["condK"], 2e-15 * R["condK"] * R["condmm"]) * max(np.abs(R["amol"]).max(), 1e-300) + 1e-300
              if R["condK"] > 1e13:
                  # cond(K) beyond what double precision resolves: two correct solvers differ
                  # by any amount in the forward error; only the backward error below is judged
                  stats["fits_with_numerically_singular_matrix_forward_error_not_judged"] += 1
              elif am.shape != R["amol"].shape or np.abs(am - R["amol"]).max() > max(tol, 1e-9 * np.abs(R["amol"]).max()):
                  V("fit:alpha_mol:mismatch", "step %d: max diff %.3g tol %.3g condK %.3g" % (step, np.abs(am - R["amol"]).max() if am.shape == R["amol"].shape else -1, tol, R["condK"]))
              # backward error of K alpha_mol = y with the reference K and y: well conditioned
              # whatever cond(K) is (the forward comparison above loosens with cond(K))
              if am.shape == R["amol"].shape:
                  res_m = R["K"].dot(am) - R["y"]
                  sc_m = np.abs(R["K"]).sum(1).max() * np.abs(am).max() + np.abs(R["y"]).max()
                  if np.abs(res_m).max() > 1e-9 * sc_m:
                      V("fit:alpha_mol:normal-equations", "step %d: residual %.3g scale %.3g" % (step, np.abs(res_m).max(), sc_m))
              # a fit that returned must have left weights on every kernel
              missing = [ik for ik, kern in enumerate(gp.kernels) if getattr(kern, "alpha", None) is None or np.asarray(kern.alpha).dtype.kind not in "fiu" or np.asarray(kern.alpha).shape != R["alphas"][ik].shape]
              if missing:
                  V("fit:kernel_alpha:missing", "step %d: kernels %s have no weights (or weights of another length) after a completed fit" % (step, missing))
                  last_fit = None
                  continue
              for ik, kern in enumerate(gp.kernels):
                  a = np.asarray(kern.alpha)
                  # backward error of (Kmm + eps I) alpha = Kmn alpha_mol  (x0^2 folded in)
                  # (with the package's own alpha_mol: its deviation from the reference alpha_mol is
                  # rounding amplified by cond(K) and is judged separately above)
                  am_pkg = am if am.shape == R["amol"].shape else R["amol"]
                  rhs = R["Kmn"][ik].dot(am_pkg) * (1.0 if op["x"] is None else op["x"][0] ** 2)
                  lhs = R["Kmms"][ik].dot(a)
                  # alpha is formed as ((Kmm+eps)^-1 Kmn) alpha_mol, so its backward error scales with
                  # |A| (|A^-1 Kmn| |alpha_mol|), which can exceed |A||alpha| through cancellation
                  x02 = 1.0 if op["x"] is None else op["x"][0] ** 2
                  growth = (np.abs(R["Kimn_raw"][ik]).dot(np.abs(am_pkg))).max() * x02
                  sc = np.abs(R["Kmms"][ik]).sum(1).max() * max(np.abs(a).max(), growth) + np.abs(rhs).max()
                  if a.shape != R["alphas"][ik].shape or np.abs(lhs - rhs).max() > 1e-9 * sc:
                      V("fit:kernel_alpha:normal-equations", "step %d kernel %d: residual %.3g scale %.3g" % (step, ik, np.abs(lhs - rhs).max() if a.shape == R["alphas"][ik].shape else -1, sc))
                  # and forward agreement scaled by conditioning
                  ftol = 1e-12 * R["condmm"] * R["condK"] * max(np.abs(R["alphas"][ik]).max(), 1e-300)
                  if a.shape == R["alphas"][ik].shape and np.abs(a - R["alphas"][ik]).max() > max(ftol, 1e-7 * np.abs(R["alphas"][ik]).max()):
                      V("fit:kernel_alpha:mismatch", "step %d kernel %d: diff %.3g tol %.3g" % (step, ik, np.abs(a - R["alphas"][ik]).max(), ftol))
              # residual on the training reactions = noise covariance applied to reaction weights
              pred = np.zeros(len(rx_in))
              for ik, kern in enumerate(gp.kernels):
                  pred += R["Kmn"][ik].T.dot(np.asarray(kern.alpha))
              resid = R["y"] - pred
              nn = R["noise"] ** 2 * (1.0 if op["x"] is None else (op["sigma_min"] + op["x"][1] ** 2)) + EPS
              # with the package's own reaction weights: resid - nn*amol = y - K amol is the residual
              # of the package's solve, which a backward-stable solver bounds by eps*|K||amol| (that
              # can exceed eps*|y| by up to cond(K)); the scale below is that bound's natural unit
              am_r = am if am.shape == R["amol"].shape else R["amol"]
              want = nn * am_r
              sc = np.abs(R["K"]).sum(1).max() * np.abs(am_r).max() + np.abs(R["y"]).max() + np.abs(pred).max()
              if np.abs(resid - want).max() > 1e-8 * sc:
                  V("fit:residual:not-noise-times-weights", "step %d: max dev %.3g scale %.3g" % (step, np.abs(resid - want).max(), sc))
              summary["alphas"].append([np.asarray(k.alpha).tolist() for k in gp.kernels])
              for kern in gp.kernels:
                  dg.add_array(np.round(np.asarray(kern.alpha), 6))
          elif c == "lik":
              if last_fit is None:
                  continue
              R, fop = last_fit
              x = np.array([1.0, 1.0]) if op["x"] is None else np.array(op["x"])
              noise_used = R["K"] - R["Kcov"]
              Kfull = x[0] ** 2 * R["Kcov"] + (op["sigma_min"] + x[1] ** 2) * noise_used
              Kfull = 0.5 * (Kfull + Kfull.T)
              w, v = np.linalg.eigh(Kfull)
              if w.min() <= 0 or w.max() / w.min() > 1e13:
                  # the matrix of this likelihood is numerically singular (exact constraints, huge
                  # dynamic range): y^T K^-1 y and log det K have no correct digits to compare
                  stats["likelihoods_not_judged_singular_matrix"] += 1
                  continue
              got = call("compute_likelihood", gp.compute_likelihood, None if op["x"] is None else np.array(op["x"]), sigma_min=op["sigma_min"])
              yv = R["y"]
              want = -0.5 * float((v.T.dot(yv) ** 2 / w).sum()) - 0.5 * float(np.log(w).sum()) - 0.5 * yv.size * np.log(2 * np.pi)
              stats["likelihoods"] += 1
              if not np.isfinite(got) or abs(got - want) > 1e-7 * max(1.0, abs(want)) * max(1.0, R["condK"] * 1e-6):
                  V("likelihood:mismatch", "step %d: got %r want %r" % (step, got, want))
              summary["liks"].append(float(got))
      except _Abort:
          break
    summary["final_alpha"] = [np.asarray(k.alpha).tolist() for k in gp.kernels] if gp.kernels[0].alpha is not None else None
    return viol, stats, dg, summary, (gp, st, ref, data, ddir, rx_in, last_fit)


def invariants(hist, workdir, state, seed):
    """(v) order / reset invariants, checked at the end of a history"""
    gp, st, ref, data, ddir, rx_in, last_fit = state
    cfg = hist["cfg"]
    viol = []
    stats = Counter()
    rp = {"property": PROP, "engine": "gphist", "case": {"kind": "history", "hist": hist, "seed": seed}}
    if last_fit is None or not rx_in:
        return viol, stats
    R, fop = last_fit
    if R["condK"] > 1e13:
        # numerically singular training matrix: refits agree to no digit, and their Cholesky
        # factorisation succeeds or fails with the rounding of one ordering
        stats["invariants_not_judged_singular_matrix"] += 1
        return viol, stats
    try:
        return _invariants(hist, workdir, state, seed, viol, stats, rp)
    except np.linalg.LinAlgError:
        stats["invariants_not_judged_singular_matrix"] += 1
        return [], stats


def _invariants(hist, workdir, state, seed, viol, stats, rp):
    gp, st, ref, data, ddir, rx_in, last_fit = state
    cfg = hist["cfg"]
    R, fop = last_fit
    x = None if fop["x"] is None else np.array(fop["x"])
    base_alpha = [np.asarray(k.alpha).copy() for k in gp.kernels]
    have_amol = getattr(gp, "alpha_mol_", None) is not None
    base_amol = np.asarray(gp.alpha_mol_).copy() if have_amol else R["amol"].copy()
    tol_a = [max(1e-11 * R["condmm"] * R["condK"], 1e-8) * max(np.abs(a).max(), 1e-300) for a in base_alpha]
    tol_m = max(1e-11 * R["condK"], 2e-14 * R["condK"] * R["condmm"], 1e-9) * max(np.abs(base_amol).max(), 1e-300)
    rng = Rng(derive("gphist-inv", seed))
    # (a) refit without any change: idempotent
    _quiet(gp.fit, x=x, sigma_min=fop["sigma_min"])
    for ik, k in enumerate(gp.kernels):
        if np.abs(np.asarray(k.alpha) - base_alpha[ik]).max() > tol_a[ik]:
            viol.append({"key": "invariant:refit:alpha-changed", "detail": "kernel %d" % ik, "replay": rp})
    stats["inv_refit"] += 1
    # (b) reset + re-add in one batch on the same object
    _quiet(gp.reset_reactions)
    _quiet(gp.add_reactions, [rxn_to_pkg(r) for r in rx_in])
    _quiet(gp.fit, x=x, sigma_min=fop["sigma_min"])
    for ik, k in enumerate(gp.kernels):
        d = np.abs(np.asarray(k.alpha) - base_alpha[ik]).max() if np.asarray(k.alpha).shape == base_alpha[ik].shape else np.inf
        if d > tol_a[ik]:
            viol.append({"key": "invariant:reset-readd:alpha-changed", "detail": "kernel %d diff %.3g tol %.3g" % (ik, d, tol_a[ik]), "replay": rp})
    if have_amol and (np.asarray(gp.alpha_mol_).shape != base_amol.shape or np.abs(np.asarray(gp.alpha_mol_) - base_amol).max() > tol_m):
        viol.append({"key": "invariant:reset-readd:alpha_mol-changed", "detail": "", "replay": rp})
    stats["inv_reset"] += 1
    # (c) fresh object, systems stored in another order and twice, reactions permuted and re-batched
    gp2, st2 = make_gp(cfg)
    for k2, k1 in zip(gp2.kernels, gp.kernels):
        k2.X1ctrl = np.array(k1.X1ctrl, copy=True, order="F")
    ids = list(data.keys())
    rng.shuffle(ids)
    half = len(ids) // 2
    _quiet(gp2.store_mol_covs, ddir, ids[half:] + [ids[0]])
    _quiet(gp2.store_mol_covs, ddir, ids[:half])
    _quiet(gp2.store_mol_covs, ddir, [ids[-1]])
    perm = list(range(len(rx_in)))
    rng.shuffle(perm)
    rx2 = [rx_in[i] for i in perm]
    cut = rng.below(len(rx2) + 1)
    if cut:
        _quiet(gp2.add_reactions, [rxn_to_pkg(r) for r in rx2[:cut]])
    if cut < len(rx2):
        _quiet(gp2.add_reactions, [rxn_to_pkg(r) for r in rx2[cut:]])
    try:
        _quiet(gp2.fit, x=x, sigma_min=fop["sigma_min"])
    except np.linalg.LinAlgError:
        # the training matrix is numerically singular (its Cholesky factorisation succeeds or
        # fails with the rounding of one ordering): not the package's doing, nothing is judged
        stats["inv_order_not_judged_singular_matrix"] += 1
        return viol, stats
    for ik, k in enumerate(gp2.kernels):
        d = np.abs(np.asarray(k.alpha) - base_alpha[ik]).max() if np.asarray(k.alpha).shape == base_alpha[ik].shape else np.inf
        if d > tol_a[ik]:
            viol.append({"key": "invariant:order:alpha-changed", "detail": "kernel %d diff %.3g tol %.3g" % (ik, d, tol_a[ik]), "replay": rp})
    am2 = np.asarray(gp2.alpha_mol_) if have_amol else base_amol[perm]
    if am2.shape != base_amol.shape or np.abs(am2 - base_amol[perm]).max() > tol_m:
        viol.append({"key": "invariant:order:alpha_mol-not-permuted", "detail": "max dev %.3g tol %.3g" % (np.abs(am2 - base_amol[perm]).max() if am2.shape == base_amol.shape else -1, tol_m), "replay": rp})
    stats["inv_order"] += 1
    return viol, stats


def run_history(spec):
    hist = spec.get("hist") or gen_history(spec["seed"])
    wd = tempfile.mkdtemp(prefix="gphist_", dir=os.environ.get("VERIF_SCRATCH", "/tmp"))
    try:
        viol, stats, dg, summary, state = exec_history(hist, wd)
        v2, s2 = invariants(hist, wd, state, spec.get("seed", 0))
        viol += v2
        stats.update(s2)
        if spec.get("restart") and not viol:
            v3 = restart_check(hist, summary, spec.get("seed", 0))
            viol += v3
            stats["restarts"] += 1
        cfg = hist["cfg"]
        sample = {"cfg": {k: cfg[k] for k in ("version", "slmode", "nsys", "n_nldf", "deriv", "nsamps", "nspins")}, "kernels": [(k["mode"], k["component"], k["mul"], k["add"]) for k in cfg["kernels"]], "ops": [o if o["op"] != "add" else {"op": "add", "n": len(o["rxns"]), "first": o["rxns"][0]} for o in hist["ops"]]}
        stats["cfg_v%d" % cfg["version"]] += 1
        stats["cfg_deriv"] += int(cfg["deriv"])
        stats["cfg_multi_kernel"] += int(len(cfg["kernels"]) > 1)
        stats["cfg_bigchunk"] += int(max(cfg["nsamps"]) > 10000)
        for k in cfg["kernels"]:
            stats["mode_" + k["mode"]] += 1
        return {"digest": dg.hex(), "nontrivial": stats["fits"] > 0, "violations": viol, "stats": dict(stats), "sample": sample}
    finally:
        shutil.rmtree(wd, ignore_errors=True)


def restart_check(hist, summary, seed):
    env = dict(os.environ)
    env["PYTHONHASHSEED"] = str(1 + seed % 4000)
    env["PYTHONPATH"] = os.path.dirname(os.path.dirname(os.path.dirname(os.path.abspath(__file__))))
    p = subprocess.run([sys.executable, "-m", "cidersim.engines.gphist_child"], input=json.dumps(hist).encode(), capture_output=True, env=env, timeout=900)
    rp = {"property": PROP, "engine": "gphist", "case": {"kind": "history", "hist": hist, "restart": True, "seed": seed}}
    if p.returncode != 0:
        return [{"key": "restart:child-died", "detail": p.stderr.decode()[-400:], "replay": rp}]
    res = json.loads(p.stdout.decode().strip().splitlines()[-1])
    out = []
    a1, a2 = summary["alphas"], res["alphas"]
    if len(a1) != len(a2):
        return [{"key": "restart:different-number-of-fits", "detail": "", "replay": rp}]
    for f1, f2 in zip(a1, a2):
        for x1, x2 in zip(f1, f2):
            x1, x2 = np.asarray(x1), np.asarray(x2)
            if x1.shape != x2.shape or np.abs(x1 - x2).max() > 1e-9 * max(np.abs(x1).max(), 1e-300):
                out.append({"key": "restart:alpha-differs-under-other-hashseed", "detail": "max diff %.3g" % (np.abs(x1 - x2).max() if x1.shape == x2.shape else -1), "replay": rp})
                return out
    return out


# ---------------------------------------------------------------------------------
def warm(args):
    boot.activate("plain")
    import ciderpress.models.train  # noqa: F401
    import pyscf.lib.chkfile  # noqa: F401


def plan(tier, seed, args):
    n = args.cases if args.cases is not None else (480 if tier == "quick" else 30000)
    every = 24 if tier == "quick" else 12
    cases = [{"kind": "history", "seed": derive(seed, PROP, i) % (10**9), "restart": i % every == 0} for i in range(n)]
    if args.cases is None:
        # enumerated (not seeded): every shallow fault point of the three state-changing calls
        nconf, npts, chunk = (1, 150, 10) if tier == "quick" else (len(FAULTENUM_SEEDS), 2000, 50)
        fe = []
        for fs in FAULTENUM_SEEDS[:nconf]:
            for target in ("add", "store", "fit"):
                for k0 in range(1, npts + 1, chunk):
                    fe.append({"kind": "faultenum", "fseed": fs, "target": target, "k0": k0, "k1": min(k0 + chunk, npts + 1)})
        cases = fe + cases
    return cases


# ---------------------------------------------------------------------------------
# fault enumeration: every shallow fault point of add_reactions / store_mol_covs / fit
# ---------------------------------------------------------------------------------
FAULTENUM_SEEDS = [11, 23, 37, 58, 71, 94]


def faultenum_history(fseed, target, k):
    """a short session on a seeded configuration in which the call `target` fails at its k-th
    shallow line (package frames at most 3 deep) and the session recovers the documented way"""
    rng = Rng(derive("gphist-faultenum", fseed))
    cfg = gen_cfg(rng)
    cfg["nsys"] = min(cfg["nsys"], 4)
    cfg["nsamps"] = [min(n_, 150) if n_ >= 40 else 77 for n_ in cfg["nsamps"][: cfg["nsys"]]]
    cfg["nspins"] = cfg["nspins"][: cfg["nsys"]]
    ids = sys_ids(cfg)
    a = [gen_reaction(rng, cfg, ids) for _ in range(3)]
    b = [gen_reaction(rng, cfg, ids) for _ in range(3)]
    f = {"fault": k, "fault_shallow": 3}
    ops = [{"op": "ctrl", "ids": ids[:1], "reduce": True, "npick": 8, "pseed": 5}]
    ops.append(dict({"op": "store", "ids": list(ids), "get_correlation": True}, **(f if target == "store" else {})))
    ops.append({"op": "add", "rxns": a})
    ops.append(dict({"op": "add", "rxns": b}, **(f if target == "add" else {})))
    if target == "add":
        ops.append({"op": "add", "rxns": b})  # the interrupted batch is submitted again after the recovery
    ops.append(dict({"op": "fit", "x": None, "sigma_min": 0.25}, **(f if target == "fit" else {})))
    ops.append({"op": "lik", "x": None, "sigma_min": 0.25})
    return {"cfg": cfg, "ops": ops}


def run_faultenum(spec):
    viol, stats, dg = [], Counter(), Digest()
    seen = set()
    for k in range(spec["k0"], spec["k1"]):
        hist = faultenum_history(spec["fseed"], spec["target"], k)
        wd = tempfile.mkdtemp(prefix="gphist_fe_", dir=os.environ.get("VERIF_SCRATCH", "/tmp"))
        try:
            v, st_, d_, summary, state = exec_history(hist, wd)
        finally:
            shutil.rmtree(wd, ignore_errors=True)
        fop = [o for o in hist["ops"] if o.get("fault")][0]
        if not fop.get("fault_site"):
            stats["fault_points_beyond_end_of_call"] += 1
            break
        stats["fault_points_enumerated"] += 1
        stats["fits"] += st_["fits"]
        dg.add(k, fop["fault_site"][0])
        for x in v:
            if x["key"] not in seen:
                seen.add(x["key"])
                x["detail"] = "fault point %d of %s (%s line %d): %s" % (k, spec["target"], fop["fault_site"][0], fop["fault_site"][1], x["detail"])
                viol.append(x)
    return {"digest": dg.hex(), "nontrivial": stats["fault_points_enumerated"] > 0, "violations": viol, "stats": dict(stats), "sample": {"faultenum": [spec["fseed"], spec["target"], spec["k0"], spec["k1"]]}}


def run_case(spec):
    if spec.get("kind") == "faultenum":
        return run_faultenum(spec)
    return run_history(spec)


def replay(rp):
    boot.activate("plain")
    return run_history(rp["case"])


def minimise(v):
    from cidersim.driver import run_pool

    case = v["replay"]["case"]
    hist = case.get("hist")
    if hist is None:
        return v
    key = v["key"]

    def valid(ops_):
        """only histories that follow the documented workflow are candidates: every system a
        reaction names was stored after the last set_control_points (with correlation
        covariances for mode-2 reactions), and the first op sets the control points"""
        if not ops_ or ops_[0]["op"] != "ctrl":
            return False
        st_x, st_c = set(), set()
        for o in ops_:
            if o["op"] == "ctrl":
                st_x, st_c = set(), set()
            elif o["op"] == "store":
                st_x |= set(o["ids"])
                if o.get("get_correlation", True):
                    st_c |= set(o["ids"])
            elif o["op"] == "add":
                for mode, rxn in o["rxns"]:
                    for st_ in rxn["structs"]:
                        sid = st_[0] if isinstance(st_, (list, tuple)) else st_
                        if sid not in st_x or (mode == 2 and sid not in st_c):
                            return False
        return True

    def fails(h):
        if not valid(h["ops"]):
            return False
        c = dict(case, hist=h)
        r = run_pool([c], run_case, nproc=1, case_timeout=600)[0]
        return bool(r) and "violations" in r and any(x["key"] == key for x in r["violations"])

    ops = list(hist["ops"])
    changed = True
    budget = 40
    while changed and budget > 0:
        changed = False
        for i in range(len(ops) - 1, 0, -1):
            if ops[i]["op"] in ("ctrl",):
                continue
            cand = ops[:i] + ops[i + 1 :]
            budget -= 1
            if budget <= 0:
                break
            if fails({"cfg": hist["cfg"], "ops": cand}):
                ops = cand
                changed = True
                break
    # shrink reaction batches
    for i, o in enumerate(ops):
        if o["op"] == "add" and len(o["rxns"]) > 1 and budget > 0:
            for j in range(len(o["rxns"]) - 1, -1, -1):
                cand = [dict(q) for q in ops]
                cand[i] = {"op": "add", "rxns": o["rxns"][:j] + o["rxns"][j + 1 :]}
                budget -= 1
                if cand[i]["rxns"] and fails({"cfg": hist["cfg"], "ops": cand}):
                    ops = cand
                    o = ops[i]
                if budget <= 0:
                    break
    out = dict(v)
    rp = dict(v["replay"])
    rp["case"] = dict(case, hist={"cfg": hist["cfg"], "ops": ops})
    rp["minimised_from_ops"] = len(hist["ops"])
    out["replay"] = rp
    return out


def coverage(done, tier):
    tot = Counter()
    samples = []
    bigrams = set()
    for spec, res in done:
        for k, v in res.get("stats", {}).items():
            tot[k] += v
        if res.get("sample") and "ops" in res["sample"] and len(samples) < 3:
            samples.append(res["sample"])
        s = res.get("sample")
        if s and "ops" in s:
            ops = [o["op"] for o in s["ops"]]
            for a, b in zip(ops, ops[1:]):
                bigrams.add((a, b, s["cfg"]["version"], tuple(k[0] for k in s["kernels"])))
    return {
        "rule": "a case = one seeded training-session history (configuration, synthetic data set, op list) executed on the real MOLGP/MOLGP2 and "
        "checked op by op against the NumPy reference model, then the order/reset invariants on a fresh object; non-trivial = at least one fit "
        "was checked; distinct = distinct event-log digests (ops, control points, rounded alphas)",
        "samples": samples,
        "ops_by_kind": {k[3:]: v for k, v in tot.items() if k.startswith("op_")},
        "fits_checked": tot["fits"],
        # what the oracle declined to judge, and why (nothing else is skipped silently)
        "not_judged": {
            "fits_forward_error_at_cond_above_1e13_backward_error_still_judged": tot["fits_with_numerically_singular_matrix_forward_error_not_judged"],
            "likelihoods_of_numerically_singular_matrices": tot["likelihoods_not_judged_singular_matrix"],
            "end_of_history_invariants_of_numerically_singular_sessions": tot["invariants_not_judged_singular_matrix"] + tot["inv_order_not_judged_singular_matrix"],
            "sessions_ended_by_a_singular_trial_point_of_the_optimiser": tot["optimiser_hit_singular_trial_point_history_ends"],
        },
        "likelihoods_checked": tot["likelihoods"],
        "system_vectors_checked": tot["system_checks"],
        "finite_difference_checks": tot["fd_checks"],
        "reactions_added": tot["reactions_added"],
        "invariant_checks": {"refit": tot["inv_refit"], "reset_readd": tot["inv_reset"], "order_and_double_store": tot["inv_order"]},
        "perturbation_kinds_fired": {
            "second_PYTHONHASHSEED_fresh_interpreter": tot["restarts"],
            "systems_stored_twice_or_reordered": tot["inv_order"],
            "histories_crossing_10000_sample_chunk": tot["cfg_bigchunk"],
            "histories_with_orbital_derivative_entries": tot["cfg_deriv"],
            "histories_with_several_kernels": tot["cfg_multi_kernel"],
            "exchange_only_store_calls": tot["stores_exchange_only"],
            "optimiser_refits_checked": tot["optimiser_refits_checked"],
            "sessions_of_a_second_model_in_between": tot["sessions_of_a_second_model_in_between"],
        },
        "spin_modes": {k[5:]: v for k, v in tot.items() if k.startswith("mode_")},
        "versions": {"MOLGP": tot["cfg_v1"], "MOLGP2": tot["cfg_v2"]},
        "distinct_op_bigram_x_config_tuples": len(bigrams),
        "faults_injected": {
            "calls_interrupted_at_a_seeded_point": tot["calls_interrupted_by_injected_failure"],
            "fault_points_enumerated_in_add_store_fit": tot["fault_points_enumerated"],
            "recoveries_after_interrupted_add_reactions": tot["recoveries_after_interrupted_add"],
            "refits_after_interrupted_fit": tot["refits_after_interrupted_fit"],
            "sites": {k[11:]: v for k, v in sorted(tot.items()) if k.startswith("fault_site_")},
            "note": "an interrupted add_reactions / store_mol_covs / fit is un-acknowledged; the session recovers the documented way (reset_reactions + add again, store again, fit again) and everything after is judged as usual. No damaged data files: the property promises nothing about them.",
        },
        "simulated_time": "not applicable: nothing on this surface reads a clock",
        "real_components": ["ciderpress.models.train (MOLGP, MOLGP2)", "ciderpress.models.dft_kernel", "kernels", "SciPy cholesky/cho_solve", "pyscf.lib.chkfile + h5py (real files in a scratch directory)", "libxc baselines (MOLGP2)"],
        "stub_components": ["training data (synthetic)"],
    }
