"""Fresh-interpreter half of the process-fresh reference of C09: reads a universe and a list
of (step, call) pairs on stdin, executes every call as a one-call history (fresh objects each)
in the given order - the parent sends them reversed - and prints the outputs per step."""
import json
import sys


def main():
    job = json.loads(sys.stdin.read())
    from cidersim import boot

    boot.activate("plain")
    from cidersim.engines import history

    out = {}
    for step, op in job["ops"]:
        h = dict(job["hist"], ops=[op])
        out[str(step)] = history.run_case({"hist": h, "child": True})
    sys.stdout.write("\n" + json.dumps(out) + "\n")


if __name__ == "__main__":
    main()
