"""Fresh-interpreter half of the process-fresh reference of C09: reads a one-call history on
stdin, executes it with the ordinary engine and prints the call's outputs."""
import json
import sys


def main():
    hist = json.loads(sys.stdin.read())
    from cidersim import boot

    boot.activate("plain")
    from cidersim.engines import history

    out = history.run_case({"hist": hist, "child": True})
    sys.stdout.write("\n" + json.dumps(out) + "\n")


if __name__ == "__main__":
    main()
