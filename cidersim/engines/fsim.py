"""E3 `fsim` — C14: saved models / feature lists / evaluators reload to identical objects.

Simulates the file system under the process (cidersim.simfs) and process restart
(a fresh interpreter with another PYTHONHASHSEED that receives only the bytes).

Case kinds
  enum      one object x one format: fault-free round trip, then *every* raw write index
            with ENOSPC, *every* raw read index with EIO, several short-write/short-read
            chunkings, dict round trip, k dump/load cycles
  history   seeded op list over a few paths (dump, load, overwrite, redump-loaded, faults)
  corrupt   unknown map code, unsupported extension / mlfunc_format, non-model payloads
  restart   a batch of acknowledged files re-loaded and evaluated in a fresh interpreter
"""
import base64
import hashlib
import io
import json
import os
import subprocess
import sys
from collections import Counter

import numpy as np

from cidersim import boot
from cidersim.prng import Digest, Rng, derive
from cidersim.simfs import SimFS

LEVEL = "fault_enumeration"
BUDGET = {"quick": 150, "thorough": 1800}
CASE_TIMEOUT = 900
PROP = "C14"
ROOT = "/simfs"


def assumptions():
    return [
        "models are synthetic (same classes/code paths as shipped functionals, seeded parameters)",
        "file system is in-memory under builtins.open; no power-loss semantics (the code never syncs, the property does not promise it)",
        "HDF5 analyzer files bypass Python I/O and are not covered by the in-memory layer",
        "restart = fresh /venv/bin/python with a different PYTHONHASHSEED receiving only the file bytes",
        "bit-identical evaluation is judged on fixed seeded probe inputs incl. boundary/extreme values",
    ]


# ---------------------------------------------------------------------------------
# objects
# ---------------------------------------------------------------------------------
def _ugly_float(rng, lo=0.05, hi=4.0):
    c = rng.below(6)
    if c == 0:
        return rng.choice([1.0 / 3, 0.1, 2.0 / 7, 1e-5, 123456.789e-3, 0.03125])
    if c == 1:
        return float(np.float64(rng.uniform(lo, hi)))
    if c == 2:
        return float(np.nextafter(rng.choice([0.5, 1.0, 2.0]), 10))
    return rng.uniform(lo, hi)


MAP_SIGS = {
    "LMap": ("i",),
    "UMap": ("i", "g"),
    "TMap": ("i", "i"),
    "VMap": ("i", "g", "f", "f"),
    "VZMap": ("i", "g", "f", "f"),
    "V2Map": ("i", "i"),
    "V3Map": ("i", "i", "g"),
    "V4Map": ("i", "i", "g"),
    "WMap": ("i", "i", "i", "g", "g"),
    "XMap": ("i", "i", "i", "g", "g"),
    "YMap": ("i", "i", "i", "i", "g", "g", "g"),
    "ZMap": ("i", "g", "f", "f"),
    "EMap": ("i", "f", "f"),
    "SignedUMap": ("i", "g"),
    "SLNMap": ("i", "g"),
    "SLXMap": ("i", "i", "g"),
    "SLBMap": ("i", "i", "i"),
    "SLTMap": ("i", "i"),
    "SLTWMap": ("i", "i"),
    "SLDMap": ("i", "i", "i"),
    "OmegaMap": ("i", "i", "i", "g", "g", "g"),
}
HAS_BOUNDS = {"LMap", "UMap", "TMap", "VMap", "VZMap", "ZMap", "EMap", "OmegaMap"}
NRAW = 6


def make_map(clsname, rng, style=0):
    from ciderpress.dft import transform_data as td

    cls = getattr(td, clsname)
    sig = MAP_SIGS[clsname]
    idx = rng.sample(list(range(NRAW)), sum(1 for s in sig if s == "i"))
    args = []
    for s in sig:
        if s == "i":
            v = idx.pop()
            if style == 2:
                v = np.int64(v)
            args.append(v)
        elif s == "g":
            v = _ugly_float(rng)
            if style == 2:
                v = np.float64(v)
            elif style == 3:
                v = np.float32(v)  # a parameter read from single-precision data
            args.append(v)
        else:
            v = _ugly_float(rng, 0.2, 2.0)
            args.append(v)
    kw = {}
    if clsname in HAS_BOUNDS and style == 1:
        a = rng.uniform(-1, 0)
        kw["bounds"] = (a, a + rng.uniform(0.5, 2))
    return cls(*args, **kw)


def all_map_names():
    from ciderpress.dft import transform_data as td

    names = [c.__name__ for c in td.ALL_CLASSES]
    for n in names:
        if n not in MAP_SIGS:
            raise RuntimeError("map class %s unknown to the harness; add its signature" % n)
    return names


def make_obj(desc):
    """desc -> (object, kind).  Deterministic in desc."""
    from ciderpress.dft import transform_data as td
    from cidersim import zoo

    rng = Rng(derive("fsim-obj", json.dumps(desc, sort_keys=True)))
    k = desc["obj"]
    if k == "map":
        return td.FeatureList([make_map(desc["cls"], rng, desc.get("style", 0))]), "featurelist"
    if k == "featurelist":
        # the map sequence depends on the seed only, so that lists with the same seed and
        # different n are prefixes of one another (their YAML texts too)
        rng = Rng(derive("fsim-fl", desc.get("seed", 0)))
        names = all_map_names()
        n = desc.get("n", 5)
        recipe = []
        for _ in range(n):
            if recipe and rng.chance(0.15):
                recipe.append(recipe[rng.below(len(recipe))])  # a map equal to an earlier one
            else:
                recipe.append((rng.choice(names), rng.below(2**40), rng.below(4)))
        maps = [make_map(nm, Rng(sub), style) for nm, sub, style in recipe]
        return td.FeatureList(maps), "featurelist"
    if k == "featurelist_all":
        maps = [make_map(nm, rng, rng.below(4)) for nm in all_map_names()]
        return td.FeatureList(maps), "featurelist"
    if k == "spline":
        N1 = desc.get("N1", 4)
        bounds = [(-1.0, 1.0)] * N1
        fe = zoo._make_fevals("spline", N1, rng, "SEP", bounds)[0]
        return fe, "spline"
    if k == "model":
        st = zoo.make_settings(desc["settings"], rng, vary_normalizers=True)
        if getattr(st, "sdmx_settings", None) is not None and derive("fsim-itype", json.dumps(desc, sort_keys=True)) % 3 == 0:
            # the optional integral type of the SDMX features, selected after construction as
            # the package's own tests do: it is part of the functional that is saved
            st.sdmx_settings._integral_type = "gauss_r2"
        m = zoo.make_model(
            st, rng, evaluator=desc["ev"], mode=desc["mode"], version=desc["version"], nkernel=desc.get("nkernel", 1), layout=desc.get("layout")
        )
        return m, "model"
    raise ValueError(k)


# ---------------------------------------------------------------------------------
# evaluation digests (the "bit-identical evaluation" oracle)
# ---------------------------------------------------------------------------------
def _h():
    return hashlib.sha256()


def _add(h, a):
    a = np.ascontiguousarray(a)
    h.update(str(a.dtype).encode())
    h.update(str(a.shape).encode())
    h.update(a.tobytes())


def probe_fl(seed, nsamp=17):
    r = np.random.default_rng(seed)
    x = np.exp(r.uniform(-8, 3, size=(NRAW, nsamp)))
    x[:, 0] = 0.0
    x[:, 1] = 1e-12
    x[:, 2] = 1e6
    x[1, 3] = -0.25
    return x


def eval_featurelist(fl, seed):
    h = _h()
    h.update(type(fl).__name__.encode())
    h.update(("|".join(type(m).__name__ for m in fl.feat_list)).encode())
    x = probe_fl(seed)
    with np.errstate(all="ignore"):
        y = np.zeros((fl.nfeat, x.shape[1]))
        fl.fill_vals_(y, x)
        _add(h, y)
        dfdy = np.random.default_rng(seed + 1).normal(size=y.shape)
        dfdx = np.zeros_like(x)
        fl.fill_derivs_(dfdx, dfdy, x)
        _add(h, dfdx)
        _add(h, fl(x.T.copy()))
        # "any input": single-precision descriptors too (NumPy's promotion rules make the
        # result depend on whether a parameter is a Python number, a NumPy scalar or an array)
        x32 = x.astype(np.float32)
        try:
            y32 = np.zeros((fl.nfeat, x.shape[1]), dtype=np.float32)
            fl.fill_vals_(y32, x32)
            _add(h, y32.astype(np.float64))
            _add(h, np.asarray(fl(x32.T.copy()), dtype=np.float64))
        except Exception as e:
            h.update(("f32:" + type(e).__name__).encode())
    for b in fl.bounds_list:
        _add(h, np.asarray([float(b[0]), float(b[1])]))
    return h.hexdigest()


def eval_spline(fe, seed):
    h = _h()
    h.update(type(fe).__name__.encode())
    N1 = 1 + max(max(s) for s in fe.ind_sets)
    r = np.random.default_rng(seed)
    X1 = r.uniform(-1.0, 1.0, size=(23, N1))
    X1[0] = -1.0
    X1[1] = 1.0
    X1[2] = 0.0
    res, dres = fe(X1)
    _add(h, res)
    _add(h, dres)
    res2 = np.ones(23)
    dres2 = np.ones((23, N1))
    fe(X1, res2, dres2)
    _add(h, res2)
    _add(h, dres2)
    try:
        r32, d32 = fe(X1.astype(np.float32))
        _add(h, np.asarray(r32, dtype=np.float64))
        _add(h, np.asarray(d32, dtype=np.float64))
    except Exception as e:
        h.update(("f32:" + type(e).__name__).encode())
    return h.hexdigest()


def eval_model(m, seed):
    from ciderpress.dft.plans import get_rho_tuple_with_grad_cross
    from ciderpress.dft.xc_evaluator2 import MappedXC2
    from cidersim import zoo

    h = _h()
    h.update(type(m).__name__.encode())
    h.update(("|".join(type(k).__name__ + ":" + k.mode for k in m.kernels)).encode())
    st = m.settings
    h.update(str(st.nfeat).encode())
    _add(h, np.asarray(st.get_feat_usps(), dtype=float))
    # public switches of the settings that decide how the features of this model are generated
    # (they do not enter the evaluation below, but a reloaded model that generates other
    # features is another functional)
    import inspect

    for sub in ("sl_settings", "nldf_settings", "sdmx_settings"):
        ss = getattr(st, sub, None)
        # ... including whatever the constructor of the settings class takes (its defining state)
        try:
            ctor = [a for a in inspect.signature(type(ss).__init__).parameters if a != "self"] if ss is not None else []
        except (TypeError, ValueError):
            ctor = []
        for attr in ["integral_type", "mode", "level", "nldf_type", "rho_mult", "n0terms", "n1terms", "nfeat"] + sorted(ctor):
            if ss is not None and hasattr(ss, attr):
                try:
                    h.update(("%s.%s=%r" % (sub, attr, getattr(ss, attr))).encode())
                except Exception as e:
                    h.update(("%s.%s!%s" % (sub, attr, type(e).__name__)).encode())
    nl_ = getattr(st, "normalizers", None)
    if nl_ is not None and hasattr(nl_, "cutoff"):
        h.update(("cutoff=%r" % float(nl_.cutoff)).encode())
    try:
        _add(h, np.asarray(st.ueg_vector(0.7, with_normalizers=True), dtype=float))
    except Exception as e:  # some settings have no UEG value; the *type* of failure must agree
        h.update(type(e).__name__.encode())
    for nspin in (1, 2):
        rng = Rng(derive("probe", seed, nspin))
        X0T = zoo.probe_features(st, nspin, 24, rng)
        with np.errstate(all="ignore"):
            X0TN = st.normalizers.get_normalized_feature_vector(X0T)
            _add(h, X0TN)
            # single-precision descriptors (what a data pipeline that stores float32 hands over):
            # result dtype and bits must agree, whatever scalar types the parameters have
            try:
                X32 = st.normalizers.get_normalized_feature_vector(X0T.astype(np.float32))
                h.update(str(X32.dtype).encode())
                _add(h, X32)
                D32 = st.normalizers.get_derivative_of_normed_features(X0T.astype(np.float32), (0.25 * X0T + 0.125).astype(np.float32))
                h.update(str(D32.dtype).encode())
                _add(h, D32)
            except Exception as e:
                h.update(("f32!" + type(e).__name__).encode())
            for rhocut in (0.0, 1e-9):
                if isinstance(m, MappedXC2):
                    r = np.random.default_rng(seed + 7 + nspin)
                    rho_data = np.zeros((nspin, 5, 24))
                    rho_data[:, 0] = X0T[:, 0] / nspin
                    rho_data[:, 1:4] = r.normal(size=(nspin, 3, 24)) * rho_data[:, :1] ** (4.0 / 3)
                    rho_data[:, 4] = np.abs(r.normal(size=(nspin, 24))) * rho_data[:, 0] ** (5.0 / 3) + (
                        rho_data[:, 1:4] ** 2
                    ).sum(1) / (8 * rho_data[:, 0] + 1e-300)
                    rt = get_rho_tuple_with_grad_cross(rho_data, is_mgga=True)
                    res, dres, vt = m(X0TN.copy(), rt, rhocut=rhocut)
                    _add(h, res)
                    _add(h, dres)
                    for v in vt:
                        _add(h, v)
                else:
                    res, dres = m(X0TN.copy(), rhocut=rhocut)
                    _add(h, res)
                    _add(h, dres)
    return h.hexdigest()


EVAL = {"featurelist": eval_featurelist, "spline": eval_spline, "model": eval_model}


# ---------------------------------------------------------------------------------
# dump / load through the package's own entry points
# ---------------------------------------------------------------------------------
FORMATS = {"featurelist": ["yaml"], "spline": ["yaml"], "model": ["yaml", "cyaml", "joblib"]}
EXT = {"yaml": ".yaml", "cyaml": ".yaml", "joblib": ".joblib"}


def do_dump(obj, kind, fmt, path):
    if kind in ("featurelist", "spline"):
        obj.dump(path)
    elif fmt == "yaml":
        import yaml

        with open(path, "w") as f:
            yaml.dump(obj, f)
    elif fmt == "cyaml":
        import yaml

        with open(path, "w") as f:
            yaml.dump(obj, f, Dumper=yaml.CDumper)
    elif fmt == "joblib":
        import joblib

        joblib.dump(obj, path)
    else:
        raise ValueError(fmt)


def do_load(kind, fmt, path, explicit_format=False):
    if kind == "featurelist":
        from ciderpress.dft.transform_data import FeatureList

        return FeatureList.load(path)
    if kind == "spline":
        from ciderpress.dft.xc_evaluator import SplineSetEvaluator

        return SplineSetEvaluator.load(path)
    from ciderpress.dft.model_utils import load_cider_model

    f = {"yaml": "yaml", "cyaml": "yaml", "joblib": "joblib"}[fmt] if explicit_format else None
    return load_cider_model(path, f)


def dict_roundtrip(obj, kind):
    from ciderpress.dft.transform_data import FeatureList, FeatureNormalizer
    from ciderpress.dft.xc_evaluator import SplineSetEvaluator

    import copy

    if kind == "featurelist":
        d = obj.as_dict()
        d0 = copy.deepcopy(d)
        o2 = FeatureList.from_dict(d)
        o2b = FeatureList.from_dict(d)  # the caller's state dict is used again
        # and element-wise through the code table
        o3 = FeatureList([FeatureNormalizer.from_dict(m.as_dict()) for m in obj.feat_list])
        return [o2, o2b, o3, FeatureList.from_dict(d0)] if _same_state(d, d0) else [o2, o2b, o3, "state-dict-changed-by-from_dict"]
    if kind == "spline":
        d = obj.to_dict()
        d0 = copy.deepcopy(d)
        o2 = SplineSetEvaluator.from_dict(d)
        o2b = SplineSetEvaluator.from_dict(d)
        return [o2, o2b] if _same_state(d, d0) else [o2, o2b, "state-dict-changed-by-from_dict"]
    return []


def _same_state(a, b):
    if isinstance(a, dict):
        return isinstance(b, dict) and sorted(a) == sorted(b) and all(_same_state(a[k], b[k]) for k in a)
    if isinstance(a, (list, tuple)):
        return isinstance(b, (list, tuple)) and len(a) == len(b) and all(_same_state(x, y) for x, y in zip(a, b))
    if isinstance(a, np.ndarray) or isinstance(b, np.ndarray):
        return np.array_equal(np.asarray(a), np.asarray(b))
    return a == b or (a != a and b != b)


def type_sig(obj, kind):
    if kind == "featurelist":
        return type(obj).__name__ + "[" + ",".join(type(m).__name__ for m in obj.feat_list) + "]"
    if kind == "model":
        return type(obj).__name__ + "[" + ",".join(type(k).__name__ for k in obj.kernels) + "]"
    return type(obj).__name__


def site(kind, fmt, which):
    if kind == "featurelist":
        return "FeatureList." + which
    if kind == "spline":
        return "SplineSetEvaluator." + which
    return ("load_cider_model" if which == "load" else "%s.dump" % fmt) + ":" + fmt


def disc(desc):
    if desc["obj"] == "map":
        return desc["cls"]
    if desc["obj"] == "model":
        return "model"
    return desc["obj"]


# ---------------------------------------------------------------------------------
# the checker
# ---------------------------------------------------------------------------------
UNSUPPORTED_MARK = "SimFS file has no fileno"


class EnvSpy:
    """Records which environment variables code of the package asks for while it dumps or
    loads.  The environment is process-global state outside the file: the harness later
    re-runs the load with every such variable pointing at a directory of look-alike files
    (see `names_and_environment`).  os.environ.get / `in` / os.getenv / expandvars /
    expanduser all end in os._Environ.__getitem__."""

    _STD = ("/os.py", "/_collections_abc.py", "/posixpath.py", "/genericpath.py", "/pathlib.py")

    def __init__(self, into):
        self.into = into

    def __enter__(self):
        cls = type(os.environ)
        self._orig = cls.__getitem__
        into, orig, std = self.into, self._orig, self._STD

        def spy(env, key):
            f = sys._getframe(1)
            for _ in range(8):
                if f is None:
                    break
                fn = f.f_code.co_filename
                if not (fn.endswith(std) or fn.startswith("<frozen ")):
                    if "/ciderpress/" in fn:
                        into.add(key)
                    break
                f = f.f_back
            return orig(env, key)

        cls.__getitem__ = spy
        return self

    def __exit__(self, *a):
        type(os.environ).__getitem__ = self._orig
        return False


class Checker:
    def __init__(self, real_dir=None):
        self.fs = SimFS(ROOT, real_dir=real_dir)
        self.unsupported = False
        self.viol = []
        self.stats = Counter()
        self.dg = Digest()
        self.sample = None
        self.env = False
        self.env_reads = set()

    def _ctx(self):
        """process-global NumPy state a user script may have changed (print options, error
        state): what is written to / read from a file must not depend on it"""
        import contextlib

        st = contextlib.ExitStack()
        if self.env:
            st.enter_context(np.printoptions(precision=3, threshold=4, edgeitems=1, suppress=True, floatmode="fixed"))
            st.enter_context(np.errstate(all="raise"))
            self.stats["io_under_changed_numpy_global_state"] += 1
        return st

    def v(self, key, detail, replay):
        self.viol.append({"key": key, "detail": detail, "replay": replay})

    # one load attempt under a plan; returns ("ok", digest, typesig) | ("raise", excname)
    def try_load(self, kind, fmt, path, seed, plan=None, explicit=False):
        if plan:
            self.fs.arm_next("r", **plan)
        try:
            with self._ctx(), EnvSpy(self.env_reads):
                o = do_load(kind, fmt, path, explicit)
        except Exception as e:
            self.fs.disarm()
            if UNSUPPORTED_MARK in str(e):
                self.unsupported = True
            return ("raise", type(e).__name__ + ":" + str(e)[:80], None)
        self.fs.disarm()
        try:
            d = EVAL[kind](o, seed)
        except Exception as e:
            return ("evalraise", type(e).__name__ + ":" + str(e)[:80], o)
        return ("ok", d + "|" + type_sig(o, kind), o)

    def try_dump(self, obj, kind, fmt, path, plan=None):
        if plan:
            self.fs.arm_next("w", **plan)
        try:
            with self._ctx():
                do_dump(obj, kind, fmt, path)
        except Exception as e:
            self.fs.disarm()
            if UNSUPPORTED_MARK in str(e):
                self.unsupported = True
            return ("raise", type(e).__name__ + ":" + str(e)[:80])
        self.fs.disarm()
        return ("ok", None)


def chunker(kind, seed):
    if kind == "one":
        return lambda i, n: 1
    if kind == "third":
        return lambda i, n: max(1, n // 3)
    if kind == "seven":
        return lambda i, n: 7
    r = Rng(seed)
    tab = [r.randint(1, 4096) for _ in range(64)]
    return lambda i, n: tab[i % 64]


def _with_realfs_fallback(fn):
    """If the code under test asked the in-memory file layer for something it cannot offer
    (a real file descriptor), the case is re-run on a real scratch directory without fault
    injection instead of reporting the simulator's own limitation as a violation."""
    import functools
    import shutil
    import tempfile

    @functools.wraps(fn)
    def wrapper(spec):
        out = fn(spec, None)
        if not out.pop("_unsupported", False):
            return out
        d = tempfile.mkdtemp(prefix="fsim_real_", dir=os.environ.get("VERIF_SCRATCH", "/tmp"))
        try:
            out = fn(spec, d)
            out.pop("_unsupported", None)
            out["stats"]["ran_on_real_fs_without_faults"] = 1
            return out
        finally:
            shutil.rmtree(d, ignore_errors=True)

    return wrapper


@_with_realfs_fallback
def run_enum(spec, real_dir=None):
    desc, fmt = spec["desc"], spec["fmt"]
    pseed = spec.get("probe_seed", 11)
    ck = Checker(real_dir)
    fs = ck.fs
    fs.install()
    try:
        obj, kind = make_obj(desc)
        ref = EVAL[kind](obj, pseed) + "|" + type_sig(obj, kind)
        ck.dg.add("ref", ref)
        stem = ["/a", "/model.v2", "/cider.0.3", "/m.yaml.bak", "/x.joblib.old"][derive("stem", json.dumps(desc, sort_keys=True)) % 5]
        path = ROOT + stem + EXT[fmt]
        other = ROOT + "/other" + EXT[fmt]
        rp = {"property": PROP, "engine": "fsim", "case": spec}
        S = lambda w: site(kind, fmt, w)  # noqa: E731
        D = disc(desc)

        # 0. dict round trip
        try:
            for o2 in dict_roundtrip(obj, kind):
                if isinstance(o2, str):
                    ck.v("roundtrip:%s:%s:%s" % (S("from_dict"), D, o2), "from_dict changed the state dictionary it was given", rp)
                    continue
                d2 = EVAL[kind](o2, pseed) + "|" + type_sig(o2, kind)
                ck.stats["dict_roundtrips"] += 1
                if d2 != ref:
                    ck.v("roundtrip:%s:%s:dict-mismatch" % (S("from_dict"), D), "dict round trip differs", rp)
        except Exception as e:
            ck.v("roundtrip:%s:%s:dict-raises-%s" % (S("from_dict"), D, type(e).__name__), str(e)[:200], rp)

        # 1. fault-free round trip
        st, info = ck.try_dump(obj, kind, fmt, path)
        if st != "ok":
            ck.v("roundtrip:%s:%s:dump-raises-%s" % (S("dump"), D, info.split(":")[0]), info, rp)
            return finish(ck, spec, nontrivial=False)
        W = fs.last_write_calls
        good = fs.read_bytes(path)
        ck.dg.add("bytes", hashlib.sha256(good).hexdigest())
        for explicit in ([False, True] if kind == "model" else [False]):
            st, info, o = ck.try_load(kind, fmt, path, pseed, explicit=explicit)
            ck.stats["roundtrips"] += 1
            if st == "raise":
                ck.v("roundtrip:%s:%s:load-raises-%s" % (S("load"), D, info.split(":")[0]), info, rp)
                return finish(ck, spec, nontrivial=True)
            if st == "evalraise" or info != ref:
                ck.v("roundtrip:%s:%s:eval-mismatch" % (S("load"), D), "loaded object evaluates differently (%s)" % st, rp)
                return finish(ck, spec, nontrivial=True)
        R = fs.last_read_calls
        loaded = o
        ck.sample = {"desc": desc, "fmt": fmt, "bytes": len(good), "raw_writes": W, "raw_reads": R}

        # 2. k dump/load cycles of the *loaded* object
        cur = loaded
        for c in range(spec.get("cycles", 3)):
            p2 = ROOT + "/cycle%d%s" % (c, EXT[fmt])
            st, info = ck.try_dump(cur, kind, fmt, p2)
            if st != "ok":
                ck.v("cycle:%s:%s:redump-raises" % (S("dump"), D), info, rp)
                break
            st, info, cur = ck.try_load(kind, fmt, p2, pseed)
            ck.stats["cycles"] += 1
            if st != "ok" or info != ref:
                ck.v("cycle:%s:%s:drift" % (S("load"), D), "cycle %d: %s %s" % (c, st, info[:80]), rp)
                break

        if real_dir:
            ck.stats["enum_objects"] += 1
            ck.stats["exhaustive_write_enum"] += 1
            return finish(ck, spec, nontrivial=True)
        # 2b. how the file is named and what the process environment says
        names_and_environment(ck, obj, kind, fmt, desc, good, ref, pseed, rp)
        # 3. short writes / short reads (legal; must be invisible)
        for cn in ("one", "third", "seven", "rand"):
            if cn == "one" and len(good) > 200000:
                continue
            st, info = ck.try_dump(obj, kind, fmt, path, plan={"write_chunk": chunker(cn, 5), "buffer_size": 512})
            if st != "ok":
                ck.v("shortwrite:%s:%s:dump-raises" % (S("dump"), D), info, rp)
                continue
            if fs.read_bytes(path) != good:
                ck.v("shortwrite:%s:%s:bytes-differ" % (S("dump"), D), "chunking %s changed file content" % cn, rp)
            st, info, _ = ck.try_load(kind, fmt, path, pseed, plan={"read_chunk": chunker(cn, 6), "buffer_size": 512})
            ck.stats["short_io_roundtrips"] += 1
            if st != "ok" or info != ref:
                ck.v("shortread:%s:%s:mismatch" % (S("load"), D), "chunking %s: %s" % (cn, st), rp)

        # 4. every write index: ENOSPC / EIO, sticky
        fs.write_bytes(other, good)
        wcap = spec.get("wcap", 400)
        widx = list(range(W)) if W <= wcap else sorted(set(list(range(wcap // 2)) + list(range(W - wcap // 2, W))))
        exhaustive_w = W <= wcap
        for i in widx:
            fs.write_bytes(path, good)  # an older, acknowledged file at the same path
            st, info = ck.try_dump(obj, kind, fmt, path, plan={"fail_write_at": i})
            ck.stats["write_faults"] += 1
            if st == "ok":
                ck.v("fault:%s:%s:write-error-swallowed" % (S("dump"), D), "ENOSPC at raw write %d/%d but dump returned normally" % (i, W), rp)
                continue
            # un-acknowledged: path is tainted; everything else must be intact
            if fs.read_bytes(other) != good:
                ck.v("fault:%s:%s:other-path-damaged" % (S("dump"), D), "write error at %d touched another path" % i, rp)
            d_now = EVAL[kind](obj, pseed) + "|" + type_sig(obj, kind)
            if d_now != ref:
                ck.v("fault:%s:%s:object-changed-by-failed-dump" % (S("dump"), D), "in-memory object differs after failed dump", rp)
            # tainted load: may raise or return anything, must not kill the interpreter
            ck.try_load(kind, fmt, path, pseed)
            # recovery: a later clean dump is acknowledged and must load identically
            if i in (0, W // 2, W - 1):
                st, info = ck.try_dump(obj, kind, fmt, path)
                st2, info2, _ = ck.try_load(kind, fmt, path, pseed)
                if st != "ok" or st2 != "ok" or info2 != ref:
                    ck.v("fault:%s:%s:no-recovery-after-failed-dump" % (S("dump"), D), "%s %s" % (st, st2), rp)

        # 5. every read index: EIO
        fs.write_bytes(path, good)
        for j in range(min(R, wcap)):
            st, info, _ = ck.try_load(kind, fmt, path, pseed, plan={"fail_read_at": j})
            ck.stats["read_faults"] += 1
            if st == "ok" and info != ref:
                ck.v("fault:%s:%s:read-error-gave-wrong-object" % (S("load"), D), "EIO at raw read %d/%d returned a different object" % (j, R), rp)
            elif st == "evalraise":
                ck.v("fault:%s:%s:read-error-gave-broken-object" % (S("load"), D), info, rp)
        # 6. open errors
        st, info = ck.try_dump(obj, kind, fmt, path, plan={"fail_open": True})
        if st == "ok":
            ck.v("fault:%s:%s:open-error-swallowed" % (S("dump"), D), "EACCES on open but dump returned normally", rp)
        fs.write_bytes(path, good)
        st, info, _ = ck.try_load(kind, fmt, path, pseed, plan={"fail_open": True})
        if st == "ok":
            ck.v("fault:%s:%s:open-error-swallowed" % (S("load"), D), "EACCES on open but load returned an object", rp)
        ck.stats["exhaustive_write_enum"] += int(exhaustive_w)
        ck.stats["enum_objects"] += 1
        # 7. the object is re-tuned in place and saved again (last: it changes `obj`)
        retuned_second_save(ck, obj, kind, fmt, desc, pseed, rp)
        return finish(ck, spec, nontrivial=True, extra={"good_b64": None})
    finally:
        fs.uninstall()


def names_and_environment(ck, obj, kind, fmt, desc, good, ref, pseed, rp):
    """The file is the only carrier of the object: what is loaded must not depend on how the
    file is named (relative to the working directory, in a sub-directory, under the other
    recognised extension or none when the format is stated) nor on the process environment
    (every variable the package is seen to read while loading is pointed at a directory that
    holds a different object under the same name)."""
    fs = ck.fs
    S = lambda w: site(kind, fmt, w)  # noqa: E731
    D = disc(desc)
    wd = ROOT + "/wd"
    fs.sim_cwd = wd
    try:
        rels = ["rel" + EXT[fmt], "sub/dir/rel" + EXT[fmt], "./rel" + EXT[fmt], "../wd/rel" + EXT[fmt]]
        fs.write_bytes(wd + "/rel" + EXT[fmt], good)
        fs.write_bytes(wd + "/sub/dir/rel" + EXT[fmt], good)
        for rel in rels:
            st, info, _ = ck.try_load(kind, fmt, rel, pseed)
            ck.stats["relative_name_loads"] += 1
            if st != "ok" or info != ref:
                ck.v("names:%s:%s:relative-name" % (S("load"), D), "%s: %s %s" % (rel, st, str(info)[:80]), rp)
                break
        st, info = ck.try_dump(obj, kind, fmt, "out" + EXT[fmt])
        if st != "ok" or fs.files.get(wd + "/out" + EXT[fmt]) != good:
            ck.v("names:%s:%s:relative-name" % (S("dump"), D), "dump under a relative name: %s %s" % (st, info), rp)
        if kind == "model":
            # the stated format decides, whatever the name ends in
            other_ext = {".yaml": ".joblib", ".joblib": ".yaml"}[EXT[fmt]]
            for nm in ("alt" + other_ext, "alt.dat", "alt", "alt" + EXT[fmt] + ".bak"):
                fs.write_bytes(wd + "/" + nm, good)
                for p in (wd + "/" + nm, nm):
                    st, info, _ = ck.try_load(kind, fmt, p, pseed, explicit=True)
                    ck.stats["stated_format_loads"] += 1
                    if st != "ok" or info != ref:
                        ck.v("names:%s:%s:stated-format-not-used" % (S("load"), D), "%s: %s %s" % (p, st, str(info)[:80]), rp)
                        break
        # environment: look-alike files where the variables the package reads point to
        reads = sorted(ck.env_reads)
        if reads:
            d2 = dict(desc)
            d2["decoy"] = 1
            if "seed" in d2:
                d2["seed"] = d2["seed"] + 1
            try:
                dobj, dkind = make_obj(d2)
                dref = EVAL[dkind](dobj, pseed) + "|" + type_sig(dobj, dkind)
            except Exception:
                dobj = None
            if dobj is not None and dkind == kind and dref != ref:
                decoy = ROOT + "/elsewhere"
                st, _ = ck.try_dump(dobj, kind, fmt, decoy + "/rel" + EXT[fmt])
                fs.write_bytes(decoy + "/sub/dir/rel" + EXT[fmt], fs.read_bytes(decoy + "/rel" + EXT[fmt]))
                fs.write_bytes(decoy + wd + "/rel" + EXT[fmt], fs.read_bytes(decoy + "/rel" + EXT[fmt]))
                saved = {v: os.environ.get(v) for v in reads}
                try:
                    for v in reads:
                        os.environ[v] = decoy
                    for p in (wd + "/rel" + EXT[fmt], "rel" + EXT[fmt], "sub/dir/rel" + EXT[fmt]):
                        st, info, _ = ck.try_load(kind, fmt, p, pseed)
                        ck.stats["loads_under_changed_environment"] += 1
                        if st != "ok" or info != ref:
                            ck.v(
                                "names:%s:%s:environment-decides-what-is-loaded" % (S("load"), D),
                                "with %s set: %s %s" % (",".join(reads), st, str(info)[:80]),
                                rp,
                            )
                            break
                finally:
                    for v, old in saved.items():
                        if old is None:
                            os.environ.pop(v, None)
                        else:
                            os.environ[v] = old
    finally:
        fs.sim_cwd = None


def tune_in_place(obj, kind, which):
    """Change one numeric parameter of a live object in place, as a user re-tuning a map or
    an evaluator does between two saves.  Returns a description, or None if nothing suitable."""
    if kind == "featurelist":
        maps = list(obj.feat_list)
        if not maps:
            return None
        m = maps[which % len(maps)]
        keys = sorted(k for k, v in vars(m).items() if isinstance(v, float) and v == v and abs(v) > 1e-12 and abs(v) < 1e12)
        if not keys:
            return None
        k = keys[(which // 7) % len(keys)]
        setattr(m, k, getattr(m, k) * 1.25)
        return "%s.%s" % (type(m).__name__, k)
    if kind == "spline":
        cs = getattr(obj, "coeff_sets", None)
        if not cs:
            return None
        a = cs[which % len(cs)]
        if isinstance(a, np.ndarray) and a.flags.writeable and a.size:
            a *= 1.25
            return "coeff_sets[%d] *= 1.25" % (which % len(cs))
        return None
    if kind == "model" and which % 2 == 1:
        # a map of the first kernel's feature list (kernels of one model may share one list
        # object: the change then reaches all of them - in a reloaded model as in the original)
        ks_ = list(getattr(obj, "kernels", None) or [])
        fl_ = getattr(ks_[0], "feature_list", None) if ks_ else None
        maps = list(getattr(fl_, "feat_list", None) or [])
        for m in maps[(which // 2) % max(1, len(maps)) :] + maps:
            keys = sorted(k for k, v in vars(m).items() if isinstance(v, float) and v == v and abs(v) > 1e-12 and abs(v) < 1e12)
            if keys:
                k = keys[(which // 7) % len(keys)]
                setattr(m, k, getattr(m, k) * 1.25)
                return "kernels[0].feature_list:%s.%s" % (type(m).__name__, k)
    if kind == "model":
        nl = getattr(getattr(obj, "settings", None), "normalizers", None)
        for m in list(getattr(nl, "_normalizers", None) or getattr(nl, "normalizers", None) or []):
            if m is None:
                continue
            keys = sorted(k for k, v in vars(m).items() if isinstance(v, float) and v == v and abs(v) > 1e-12 and abs(v) < 1e12)
            if keys:
                setattr(m, keys[which % len(keys)], getattr(m, keys[which % len(keys)]) * 1.25)
                return "%s.%s" % (type(m).__name__, keys[which % len(keys)])
        return None
    return None


def retuned_second_save(ck, obj, kind, fmt, desc, pseed, rp):
    """save - re-tune in place - save again: the second file must hold the object as it is now"""
    S = lambda w: site(kind, fmt, w)  # noqa: E731
    D = disc(desc)
    which_ = derive("tune", json.dumps(desc, sort_keys=True)) % 64
    # the object as it is saved now, loaded: it gets the same change as the original below
    twin = None
    p1 = ROOT + "/before_retuning" + EXT[fmt]
    if ck.try_dump(obj, kind, fmt, p1)[0] == "ok":
        st1, _i1, twin = ck.try_load(kind, fmt, p1, pseed)
        if st1 != "ok":
            twin = None
    try:
        what = tune_in_place(obj, kind, which_)
        if what is None:
            return
        ref2 = EVAL[kind](obj, pseed) + "|" + type_sig(obj, kind)
    except Exception:
        return  # the re-tuned object is not a valid one: nothing to save
    if twin is not None:
        # a reloaded object is the same object for whatever is done to it next: which parts
        # share one sub-object (one feature list for several kernels) is part of what it is
        try:
            what_t = tune_in_place(twin, kind, which_)
            got_t = EVAL[kind](twin, pseed) + "|" + type_sig(twin, kind)
        except Exception as e:
            what_t, got_t = what, "raise:" + type(e).__name__
        ck.stats["same_change_applied_to_loaded_twin"] += 1
        if what_t != what or got_t != ref2:
            ck.v("retune:%s:%s:loaded-object-reacts-differently-to-the-same-change" % (S("load"), D), "change %s (on the loaded object: %s)" % (what, what_t), rp)
    p2 = ROOT + "/retuned" + EXT[fmt]
    st, info = ck.try_dump(obj, kind, fmt, p2)
    if st != "ok":
        ck.v("retune:%s:%s:dump-raises" % (S("dump"), D), "%s after %s" % (info, what), rp)
        return
    st, info, _ = ck.try_load(kind, fmt, p2, pseed)
    ck.stats["saves_after_in_place_retuning"] += 1
    if st != "ok" or info != ref2:
        ck.v("retune:%s:%s:second-save-holds-stale-state" % (S("load"), D), "after %s: %s" % (what, st), rp)
    for o2 in dict_roundtrip(obj, kind):
        if not isinstance(o2, str) and EVAL[kind](o2, pseed) + "|" + type_sig(o2, kind) != ref2:
            ck.v("retune:%s:%s:dict-holds-stale-state" % (S("from_dict"), D), "after %s" % what, rp)
            break


def finish(ck, spec, nontrivial, extra=None):
    if ck.unsupported and not ck.fs.real_dir:
        return {"_unsupported": True, "digest": "", "nontrivial": False, "violations": [], "stats": {}}
    st = dict(ck.stats)
    for k, v in ck.fs.stats.items():
        st["fs_" + k] = v
    out = {
        "digest": ck.dg.hex(),
        "nontrivial": bool(nontrivial),
        "violations": ck.viol,
        "stats": st,
        "sample": ck.sample,
    }
    return out


# ---------------------------------------------------------------------------------
# corruption cases
# ---------------------------------------------------------------------------------
def run_corrupt(spec):
    import joblib
    import yaml

    from ciderpress.dft.model_utils import load_cider_model
    from ciderpress.dft.transform_data import FeatureList, FeatureNormalizer

    ck = Checker()
    fs = ck.fs
    fs.install()
    rp = {"property": PROP, "engine": "fsim", "case": spec}
    try:
        rng = Rng(derive("corrupt", spec["seed"]))
        model, _ = make_obj({"obj": "model", "settings": "sl_npa", "ev": "rbf", "mode": "SEP", "version": 1, "seed": spec["seed"]})
        fl, _ = make_obj({"obj": "featurelist", "n": 4, "seed": spec["seed"]})

        def expect_valueerror(name, fn):
            ck.stats["corruptions"] += 1
            ck.dg.add(name)
            try:
                r = fn()
            except Exception as e:
                # the property asks for "an error rather than mis-loaded": any exception type is
                # a rejection (today's code raises ValueError; a refactor may choose another)
                ck.stats["rejected_with_" + type(e).__name__] += 1
                return
            ck.v("corrupt:%s:accepted" % name, "returned %s" % type(r).__name__, rp)

        # unknown map code, via dict and via file
        for code in ["QQ", "", "omega", "l", 7, None if False else "None"]:
            d = fl.as_dict()
            d["feat_list"][rng.below(len(d["feat_list"]))]["code"] = code
            expect_valueerror("FeatureList.from_dict:unknown-code", lambda d=d: FeatureList.from_dict(d))
            expect_valueerror("FeatureNormalizer.from_dict:unknown-code", lambda d=d: [FeatureNormalizer.from_dict(x) for x in d["feat_list"]])
            p = ROOT + "/bad.yaml"
            with open(p, "w") as f:
                yaml.dump(d, f)
            expect_valueerror("FeatureList.load:unknown-code", lambda p=p: FeatureList.load(p))
        # unsupported extension / format
        with open(ROOT + "/m.yaml", "w") as f:
            yaml.dump(model, f)
        good = fs.read_bytes(ROOT + "/m.yaml")
        for ext in [".yml", ".pkl", "", ".json", ".yaml.bak", ".YAML", ".joblib.gz"]:
            p = ROOT + "/m" + ext
            fs.write_bytes(p, good)
            expect_valueerror("load_cider_model:unsupported-extension", lambda p=p: load_cider_model(p, None))
        for fm in ["json", "pickle", "YAML", "", "yml", 0]:
            expect_valueerror("load_cider_model:unsupported-format", lambda fm=fm: load_cider_model(ROOT + "/m.yaml", fm))
        # the same with joblib content: a perfectly loadable pickle under a name / format string
        # the package does not support must be rejected too, not quietly loaded
        joblib.dump(model, ROOT + "/m.joblib")
        goodj = fs.read_bytes(ROOT + "/m.joblib")
        for ext in [".pkl", ".dat", ".pickle", ".JOBLIB", ".joblib.bak", ""]:
            p = ROOT + "/mj" + ext
            fs.write_bytes(p, goodj)
            expect_valueerror("load_cider_model:unsupported-extension", lambda p=p: load_cider_model(p, None))
        for fm in ["pickle", "JOBLIB", "pkl", "job", 1]:
            expect_valueerror("load_cider_model:unsupported-format", lambda fm=fm: load_cider_model(ROOT + "/m.joblib", fm))
        # payloads that are not mapped functionals
        import types

        # incl. look-alikes: objects that carry .settings / .kernels but are not mapped functionals
        payloads = [
            fl.as_dict(),
            [1, 2, 3],
            "just a string",
            {"kernels": [], "settings": None},
            model.kernels[0],
            model.settings,
            3.5,
            types.SimpleNamespace(settings=model.settings, kernels=list(model.kernels), libxc_baseline=None),
            types.SimpleNamespace(settings=None),
        ]
        for k, pl in enumerate(payloads):
            p = ROOT + "/p%d.yaml" % k
            with open(p, "w") as f:
                yaml.dump(pl, f)
            expect_valueerror("load_cider_model:yaml-not-a-model", lambda p=p: load_cider_model(p, None))
            p = ROOT + "/p%d.joblib" % k
            joblib.dump(pl, p)
            expect_valueerror("load_cider_model:joblib-not-a-model", lambda p=p: load_cider_model(p, None))
            expect_valueerror("load_cider_model:object-not-a-model", lambda pl=pl: load_cider_model(pl, None))
        # a valid model object passed straight through is returned as is
        if load_cider_model(model, None) is not model:
            ck.v("corrupt:load_cider_model:object-passthrough", "valid in-memory model not returned unchanged", rp)
        out = finish(ck, spec, nontrivial=True)
    finally:
        fs.uninstall()
    if not spec.get("in_child"):
        # the same rejections in an interpreter started with -O (assert statements vanish, so a
        # rejection implemented with assert would silently accept there)
        env = dict(os.environ)
        env["PYTHONPATH"] = os.path.dirname(os.path.dirname(os.path.dirname(os.path.abspath(__file__))))
        env["PYTHONHASHSEED"] = str(1 + spec["seed"] % 4000)
        p = subprocess.run([sys.executable, "-O", "-m", "cidersim.engines.fsim_child", "--corrupt", str(spec["seed"])], capture_output=True, env=env, timeout=900)
        lines = p.stdout.decode().strip().splitlines()
        if p.returncode != 0 or not lines:
            out["violations"].append({"key": "corrupt:python-O:child-died", "detail": "rc=%s %s" % (p.returncode, p.stderr.decode()[-300:]), "replay": rp})
        else:
            for k_ in json.loads(lines[-1])["keys"]:
                out["violations"].append({"key": k_ + ":python-O", "detail": "in an interpreter started with -O", "replay": rp})
            out["stats"]["corruption_sets_under_python_O"] = 1
    return out


# ---------------------------------------------------------------------------------
# seeded histories
# ---------------------------------------------------------------------------------
HIST_OBJS = [
    {"obj": "featurelist", "n": 3},
    {"obj": "featurelist", "n": 8},
    {"obj": "featurelist_all"},
    {"obj": "spline", "N1": 3},
    {"obj": "spline", "N1": 5},
    {"obj": "model", "settings": "sl_npa", "ev": "rbf", "mode": "SEP", "version": 1},
    {"obj": "model", "settings": "sl_nst", "ev": "spline", "mode": "NPOL", "version": 1},
    {"obj": "model", "settings": "nldf_j", "ev": "kernel", "mode": "SEP", "version": 1, "nkernel": 2},
    {"obj": "model", "settings": "nldf_ij", "ev": "rbf+linear", "mode": "NPOL", "version": 2},
    {"obj": "model", "settings": "sdmxg1", "ev": "rbf", "mode": "POL", "version": 1},
    {"obj": "model", "settings": "nldf_k", "ev": "spline+rbf", "mode": "SEP", "version": 2},
    {"obj": "model", "settings": "nldf_i_l1", "ev": "linear", "mode": "SEP", "version": 1},
    {"obj": "model", "settings": "sl_npa", "ev": "antisym", "mode": "SEP", "version": 1},
    {"obj": "model", "settings": "sdmxfull", "ev": "rbf", "mode": "SEP", "version": 1},
]


def _define_user_subclass(family, which):
    """what a user module does when it extends the package: define a subclass (no new code
    letter, no registration, never instantiated)"""
    from ciderpress.dft import transform_data as td
    from ciderpress.dft import xc_evaluator as xe
    from ciderpress.dft import xc_evaluator2 as xe2

    if family == "map":
        base = td.ALL_CLASSES[which % len(td.ALL_CLASSES)]
    elif family == "evaluator":
        cands = [xe.RBFEvaluator, xe.KernelEvaluator, xe.SplineSetEvaluator, xe.GlobalLinearEvaluator, xe.SpinRBFEvaluator]
        base = cands[which % len(cands)]
    else:
        cands = [xe.MappedXC, xe2.MappedXC2, xe.MappedDFTKernel, xe2.MappedDFTKernel2]
        base = cands[which % len(cands)]
    return type("User" + base.__name__, (base,), {"__doc__": "user extension", "__module__": "user_module"})


def gen_history(seed, nops=None):
    rng = Rng(derive("fsim-hist", seed))
    nobj = rng.randint(2, 4)
    objs = []
    for i in range(nobj):
        d = dict(rng.choice(HIST_OBJS))
        d["seed"] = rng.below(1000)
        prev = [o for o in objs if o["obj"] == "featurelist"]
        if d["obj"] == "featurelist" and prev and rng.chance(0.6):
            # a shorter/longer list with the same leading maps as an earlier object
            d["seed"] = prev[0]["seed"]
            d["n"] = rng.choice([k for k in (2, 3, 4, 6, 9) if k != prev[0]["n"]])
        objs.append(d)
    ops = []
    n = nops or rng.randint(4, 10)
    npath = rng.randint(1, 5)
    for _ in range(n):
        c = rng.weighted([("dump", 8), ("load", 8), ("dump_fault", 4), ("redump", 4), ("load_fault", 2), ("short", 4), ("subclass", 1), ("tune", 2)])
        if c == "subclass":
            # user code extends a registered class (a map with clipping, an evaluator with
            # logging...): defining a class must not change what saved files load to
            ops.append({"op": "subclass", "which": rng.below(64), "family": rng.choice(["map", "map", "evaluator", "model"])})
            continue
        oi = rng.below(nobj)
        pi = rng.below(npath)
        op = {"op": c, "obj": oi, "path": pi}
        if c == "tune":
            op["which"] = rng.below(64)
        if c in ("dump_fault",):
            op["at"] = rng.below(6)
        if c == "load_fault":
            op["at"] = rng.below(4)
        if c == "short":
            op["chunk"] = rng.choice(["one", "third", "seven", "rand"])
        ops.append(op)
    return {"objs": objs, "ops": ops, "env": bool(rng.chance(0.3))}


def exec_history(hist, spec, real_dir=None):
    os.environ["VERIF_TAG"] = "node07"  # defined on purpose: file names that contain $VERIF_TAG stay literal
    ck = Checker(real_dir)
    ck.env = bool(hist.get("env"))
    fs = ck.fs
    fs.install()
    rp = {"property": PROP, "engine": "fsim", "case": {"kind": "history", "hist": hist, "real_fs": bool(spec.get("real_fs"))}}
    try:
        objs = []
        for d in hist["objs"]:
            o, kind = make_obj(d)
            fmt = {"featurelist": "yaml", "spline": "yaml"}.get(kind) or ["yaml", "cyaml", "joblib"][d["seed"] % 3]
            objs.append({"o": o, "kind": kind, "fmt": fmt, "ref": EVAL[kind](o, 11) + "|" + type_sig(o, kind), "desc": d})
        # model: path -> {"ref":..., "kind":..., "fmt":..., "ack": bool}
        disk = {}
        held = []  # objects returned by earlier loads: (object, kind, digest when loaded)

        def check_held(step):
            for o_, k_, d_ in held:
                try:
                    now = EVAL[k_](o_, 11) + "|" + type_sig(o_, k_)
                except Exception as e:
                    now = "raise:" + type(e).__name__
                if now != d_:
                    ck.v("history:loaded-object-changed-by-later-io:%s" % k_, "step %d: an object returned by an earlier load evaluates differently after later dumps/loads" % step, rp)
                    return False
            return True

        for step, op in enumerate(hist["ops"]):
            if op["op"] == "subclass":
                ck.stats["op_subclass"] += 1
                ck.dg.add("subclass", op["which"], op["family"])
                _define_user_subclass(op["family"], op["which"])
                continue
            ob = objs[op["obj"]]
            kind, fmt = ob["kind"], ob["fmt"]
            if op["op"] == "tune":
                # a parameter of the live object is changed in place between saves: files written
                # before keep the old state, files written afterwards hold the new one
                ck.dg.add("tune", op["obj"], op["which"])
                try:
                    what = tune_in_place(ob["o"], kind, op["which"])
                    if what:
                        ob["ref"] = EVAL[kind](ob["o"], 11) + "|" + type_sig(ob["o"], kind)
                        ck.stats["objects_retuned_in_place"] += 1
                except Exception:
                    ob["dead"] = True  # not a valid object any more: no later op uses it
                continue
            if ob.get("dead"):
                continue
            # one path namespace per (path index); extension follows the object's format
            # (file names may contain "$", "~" and "%": a name is a name, not a shell expression)
            path = "%s/%s%s" % (ROOT, ["p0", "run.1.p1", "p2.v3.final", "set_$VERIF_TAG", "~set.${VERIF_TAG}"][op["path"] % 5], EXT[fmt])
            c = op["op"]
            ck.stats["op_" + c] += 1
            ck.dg.add(c, op["obj"], op["path"])
            S = lambda w: site(kind, fmt, w)  # noqa: E731
            if c in ("dump", "short", "dump_fault", "redump"):
                src = ob["o"]
                if c == "redump":
                    # re-dump what the path currently holds (if it holds an acknowledged file of this kind)
                    ent = disk.get(path)
                    if not (ent and ent["ack"] and ent["kind"] == kind and ent["fmt"] == fmt):
                        continue
                    st, info, src = ck.try_load(kind, fmt, path, 11)
                    if st != "ok" or info != ent["ref"]:
                        ck.v("history:%s:acked-file-load-mismatch" % S("load"), "step %d: %s" % (step, st), rp)
                        continue
                plan = None
                if c == "short":
                    plan = {"write_chunk": chunker(op["chunk"], step), "buffer_size": 256}
                if c == "dump_fault":
                    plan = {"fail_write_at": op["at"]}
                st, info = ck.try_dump(src, kind, fmt, path, plan)
                refd = ob["ref"] if c != "redump" else disk[path]["ref"]
                if st == "ok":
                    if c == "dump_fault" and fs.last_write_calls > op["at"]:
                        ck.v("history:%s:write-error-swallowed" % S("dump"), "step %d" % step, rp)
                    disk[path] = {"ref": refd, "kind": kind, "fmt": fmt, "ack": True}
                else:
                    if c != "dump_fault":
                        ck.v("history:%s:dump-raises-%s" % (S("dump"), info.split(":")[0]), "step %d %s" % (step, info), rp)
                    disk[path] = {"ref": None, "kind": kind, "fmt": fmt, "ack": False}
                # all other acknowledged paths must be untouched (checked at their next load)
            elif c in ("load", "load_fault"):
                ent = disk.get(path)
                if ent is None or ent["kind"] != kind or ent["fmt"] != fmt:
                    continue
                plan = {"fail_read_at": op["at"]} if c == "load_fault" else None
                st, info, lo = ck.try_load(kind, fmt, path, 11, plan)
                if st == "ok" and ent["ack"] and len(held) < 6:
                    held.append((lo, kind, info))
                if len(held) > 1:
                    ck.stats["held_objects_rechecked"] += len(held) - 1
                    check_held(step)
                if not ent["ack"]:
                    ck.stats["tainted_loads"] += 1
                    continue  # tainted: anything goes except a crash
                if c == "load":
                    if st != "ok":
                        ck.v("history:%s:acked-file-load-%s" % (S("load"), st), "step %d %s" % (step, info[:100]), rp)
                    elif info != ent["ref"]:
                        ck.v("history:%s:acked-file-load-mismatch" % S("load"), "step %d: stale or wrong object" % step, rp)
                    else:
                        ck.stats["acked_loads_ok"] += 1
                else:
                    if st == "ok" and info != ent["ref"]:
                        ck.v("history:%s:read-error-gave-wrong-object" % S("load"), "step %d" % step, rp)
            # in-memory objects must never change
            for ob2 in objs:
                pass
        check_held(len(hist["ops"]))
        for ob in objs:
            if ob.get("dead"):
                continue
            if EVAL[ob["kind"]](ob["o"], 11) + "|" + type_sig(ob["o"], ob["kind"]) != ob["ref"]:
                ck.v("history:in-memory-object-changed:%s" % ob["kind"], "object differs after history", rp)
        # final sweep: every acknowledged path loads to its reference
        for path, ent in sorted(disk.items()):
            if ent["ack"]:
                st, info, _ = ck.try_load(ent["kind"], ent["fmt"], path, 11)
                if st != "ok" or info != ent["ref"]:
                    ck.v("history:%s:final-acked-file-mismatch" % site(ent["kind"], ent["fmt"], "load"), "%s %s" % (path, st), rp)
                else:
                    ck.stats["acked_loads_ok"] += 1
        ck.sample = {"hist": hist}
        nontriv = ck.stats["acked_loads_ok"] > 0
        out = finish(ck, spec, nontrivial=nontriv)
        # hand acknowledged files to the restart checker
        out["_acked"] = [
            {"path": p, "kind": e["kind"], "fmt": e["fmt"], "ref": e["ref"], "b64": base64.b64encode(fs.read_bytes(p)).decode()}
            for p, e in sorted(disk.items())
            if e["ack"]
        ]
        return out
    finally:
        fs.uninstall()


def run_history(spec):
    hist = spec.get("hist") or gen_history(spec["seed"])
    if spec.get("real_fs"):
        # planned pass-through case: the same history on a real scratch directory (no faults),
        # so that behaviour tied to real file identity - memory-mapped loads, descriptors
        # kept open by a loaded object - is exercised as well; the in-memory layer hides it
        import shutil
        import tempfile

        d = tempfile.mkdtemp(prefix="fsim_real_", dir=os.environ.get("VERIF_SCRATCH", "/tmp"))
        try:
            out = exec_history(hist, spec, real_dir=d)
            out.pop("_unsupported", None)
            out["stats"]["histories_on_real_fs_by_plan"] = 1
        finally:
            shutil.rmtree(d, ignore_errors=True)
    else:
        out = exec_history(hist, spec)
    if out.pop("_unsupported", False):
        import shutil
        import tempfile

        d = tempfile.mkdtemp(prefix="fsim_real_", dir=os.environ.get("VERIF_SCRATCH", "/tmp"))
        try:
            out = exec_history(hist, spec, real_dir=d)
            out.pop("_unsupported", None)
            out["stats"]["ran_on_real_fs_without_faults"] = 1
        finally:
            shutil.rmtree(d, ignore_errors=True)
    acked = out.pop("_acked", [])
    if spec.get("restart") and acked:
        rv, n = restart_check(acked, spec["seed"], {"property": PROP, "engine": "fsim", "case": {"kind": "history", "hist": hist, "restart": True, "seed": spec["seed"]}})
        out["violations"] += rv
        out["stats"]["restart_loads"] = n
        out["stats"]["restarts"] = 1
    return out


# ---------------------------------------------------------------------------------
# restart: fresh interpreter, other PYTHONHASHSEED, only the bytes survive
# ---------------------------------------------------------------------------------
def _child(job, seed, opt=False):
    env = dict(os.environ)
    env["PYTHONHASHSEED"] = str(1 + (seed % 4000))
    env["PYTHONPATH"] = os.path.dirname(os.path.dirname(os.path.dirname(os.path.abspath(__file__))))
    p = subprocess.run(
        [sys.executable] + (["-O"] if opt else []) + ["-m", "cidersim.engines.fsim_child"],
        input=json.dumps(job).encode(),
        capture_output=True,
        env=env,
        timeout=900,
    )
    if p.returncode != 0:
        return None, "rc=%s %s" % (p.returncode, p.stderr.decode()[-500:])
    return json.loads(p.stdout.decode().strip().splitlines()[-1]), None


def run_restart2(spec):
    """Two fresh processes with lives of their own: a writer builds, uses and dumps the objects;
    a reader first builds and uses *other* objects of the same kinds (same construction order,
    other parameters), then loads the writer's files, and finally uses its own objects again.
    Whatever a process counts, numbers or caches per process must not travel with the file."""
    ck = Checker()
    rp = {"property": PROP, "engine": "fsim", "case": spec}
    refs = []
    for desc, fmt in spec["items"]:
        obj, kind = make_obj(desc)
        refs.append(EVAL[kind](obj, 11) + "|" + type_sig(obj, kind))
        ck.dg.add(refs[-1])
    w, err = _child({"write_items": spec["items"], "probe_seed": 11}, spec["seed"])
    if w is None:
        ck.v("restart:writer-process-died", err, rp)
        return finish(ck, spec, nontrivial=False)
    files = w["files"]
    for f, r, (desc, fmt) in zip(files, refs, spec["items"]):
        if f["ref"] != r:
            ck.v("restart:%s:evaluates-differently-in-fresh-process" % disc(desc), "object built from one recipe in two processes", rp)
    pre = []
    for desc, fmt in spec["items"]:
        d2 = dict(desc)
        d2["seed"] = d2.get("seed", 0) + 1
        d2["other"] = 1
        pre.append(d2)
    r, err = _child({"files": files, "pre_items": pre, "probe_seed": 11}, spec["seed"] + 1, opt=bool(spec["seed"] % 2))
    if r is None:
        ck.v("restart:child-died", err, rp)
        return finish(ck, spec, nontrivial=False)
    for f, got in zip(files, r["results"]):
        ck.stats["restart_loads"] += 1
        if got != f["ref"]:
            ck.v("restart:%s:differs-in-busy-fresh-process" % site(f["kind"], f["fmt"], "load"), "path %s: %s" % (f["path"], str(got)[:120]), rp)
    if r["pre_changed"]:
        ck.v("restart:objects-of-the-reader-changed-by-load", "reader objects %s evaluate differently after the files were loaded" % r["pre_changed"][:6], rp)
    ck.stats["restarts"] = 2
    ck.stats["two_process_restarts"] = 1
    ck.stats["reader_objects_built_before_load"] = r["pre"]
    ck.sample = {"restart_items": len(files), "reader_pre_objects": r["pre"]}
    return finish(ck, spec, nontrivial=len(files) > 0)


def restart_check(files, seed, rp):
    job = {"files": files, "probe_seed": 11}
    env = dict(os.environ)
    env["PYTHONHASHSEED"] = str(1 + (seed % 4000))
    env["PYTHONPATH"] = os.path.dirname(os.path.dirname(os.path.dirname(os.path.abspath(__file__))))
    p = subprocess.run(
        [sys.executable] + (["-O"] if seed % 2 else []) + ["-m", "cidersim.engines.fsim_child"],
        input=json.dumps(job).encode(),
        capture_output=True,
        env=env,
        timeout=600,
    )
    viol = []
    if p.returncode != 0:
        viol.append({"key": "restart:child-died", "detail": "rc=%s %s" % (p.returncode, p.stderr.decode()[-500:]), "replay": rp})
        return viol, 0
    res = json.loads(p.stdout.decode().strip().splitlines()[-1])
    for f, r in zip(files, res["results"]):
        if r != f["ref"]:
            viol.append(
                {
                    "key": "restart:%s:differs-in-fresh-process" % site(f["kind"], f["fmt"], "load"),
                    "detail": "path %s: %s" % (f["path"], str(r)[:120]),
                    "replay": rp,
                }
            )
    return viol, len(files)


def run_restart(spec):
    """dump a batch of enumerated objects fault-free, verify them all in one fresh process"""
    ck = Checker()
    fs = ck.fs
    fs.install()
    try:
        files = []
        for k, (desc, fmt) in enumerate(spec["items"]):
            obj, kind = make_obj(desc)
            ref = EVAL[kind](obj, 11) + "|" + type_sig(obj, kind)
            path = "%s/r%d%s" % (ROOT, k, EXT[fmt])
            st, info = ck.try_dump(obj, kind, fmt, path)
            if st != "ok":
                continue  # reported by the enum case of this object
            files.append({"path": path, "kind": kind, "fmt": fmt, "ref": ref, "b64": base64.b64encode(fs.read_bytes(path)).decode(), "desc": desc})
            ck.dg.add(ref)
    finally:
        fs.uninstall()
    rp = {"property": PROP, "engine": "fsim", "case": spec}
    viol, n = restart_check(files, spec["seed"], rp)
    # refine the discriminator with the object description
    ck.viol += viol
    ck.stats["restart_loads"] = n
    ck.stats["restarts"] = 1
    ck.sample = {"restart_items": len(files)}
    return finish(ck, spec, nontrivial=n > 0)


# ---------------------------------------------------------------------------------
# analyzers: HDF5 through pyscf.lib.chkfile bypasses Python I/O, so a real scratch
# directory is used and only the cycle / restart dimensions apply
# ---------------------------------------------------------------------------------
def analyzer_digest(an):
    h = _h()
    h.update(type(an).__name__.encode())
    h.update(str(int(an.grids_level)).encode())
    _add(h, np.asarray(an.dm))
    for name in ("mo_occ", "mo_coeff", "mo_energy"):
        v = getattr(an, name)
        h.update(b"none" if v is None else b"arr")
        if v is not None:
            _add(h, np.asarray(v))
    _add(h, an.mol.atom_coords())
    h.update(str(an.mol.nao_nr()).encode())
    # NOT mol._env/_bas: their internal layout follows the iteration order of a set of element
    # symbols inside PySCF (hash-seed dependent) while the molecule they describe is the same.
    # What must agree is what the molecule evaluates to: labels and AO values on fixed points.
    h.update("|".join(an.mol.ao_labels()).encode())
    pts = np.random.default_rng(5).normal(size=(9, 3))
    _add(h, an.mol.eval_gto("GTOval_sph", pts))
    h.update(repr(sorted((k, repr(v)) for k, v in an.mol._basis.items())).encode())
    h.update(str((int(an.mol.spin), int(an.mol.charge))).encode())
    def addval(v):
        if isinstance(v, dict):
            for kk in sorted(v):
                h.update(("{" + str(kk)).encode())
                addval(v[kk])
            h.update(b"}")
        elif isinstance(v, (str, bytes)):
            h.update(b"s:" + (v.encode() if isinstance(v, str) else v))
        else:
            _add(h, np.asarray(v))

    for k in sorted(an.keys()):
        h.update(k.encode())
        addval(an.get(k))
    _add(h, an.grids.weights)
    return h.hexdigest()


def run_analyzer(spec):
    import shutil
    import tempfile

    from ciderpress.pyscf.analyzers import ElectronAnalyzer, RHFAnalyzer, UHFAnalyzer
    from cidersim import zoo

    ck = Checker()
    rp = {"property": PROP, "engine": "fsim", "case": spec}
    rng = Rng(derive("analyzer", spec["seed"]))
    uks = bool(rng.chance(0.5))
    # a restricted open-shell reference: a restricted analyzer that holds both spin densities
    rohf = bool(spec["seed"] % 5 == 0)
    if rohf:
        uks = False
    mol = zoo.make_mol(rng.choice(["H2", "LiH", "H2O"] if not (uks or rohf) else ["OH", "O", "H2"]), "sto-3g")
    if derive("analyzer-geometry", spec["seed"]) % 2:
        # a geometry as it comes out of an optimiser or a trajectory file: one NumPy row per
        # atom, all sixteen digits significant (a text form of the molecule must keep them)
        from pyscf import gto

        rg = np.random.default_rng(spec["seed"] + 991)
        xyz = mol.atom_coords(unit="Bohr") + rg.normal(size=(mol.natm, 3)) * 1e-3 * np.pi
        mol = gto.M(atom=[[mol.atom_symbol(i), xyz[i]] for i in range(mol.natm)], basis="sto-3g", spin=mol.spin, charge=mol.charge, unit="Bohr" if spec["seed"] % 4 < 2 else "Angstrom", verbose=0)
        ck.stats["analyzer_geometry_as_numpy_rows"] += 1
    nao = mol.nao_nr()
    r = np.random.default_rng(spec["seed"])
    dm = zoo.make_dm(mol, rng, 2 if (uks or rohf) else 1)
    cls = UHFAnalyzer if uks else RHFAnalyzer
    shape = (2, nao) if uks else (nao,)
    ck.stats["analyzer_rohf"] += int(rohf)
    def build(k):
        # optional orbital data may be absent (None entries are not written)
        mo = {"mo_occ": r.uniform(0, 2, shape), "mo_coeff": r.normal(size=shape + (nao,)), "mo_energy": r.normal(size=shape)}
        for name in list(mo):
            if rng.chance(0.25):
                mo[name] = None
        if spec["seed"] % 3 == 1:
            # a bare analyzer (built from a density matrix alone) written over a file that
            # holds a full one
            for name in list(mo):
                if k == 0:
                    mo[name] = None
        a = cls(mol, dm if k == 0 else dm * (1.0 + 0.01 * k), grids_level=rng.choice([0, 0, 1]), **mo)
        a.set("ex_energy_density", r.normal(size=a.grids.weights.size))
        a.set("some_scalar", np.float64(r.normal()))
        if rng.chance(0.5):
            a.set("rho_data", r.normal(size=(2 if uks else 1, 5, a.grids.weights.size)))
        if rng.chance(0.4):
            a.set("xc_label", rng.choice(["PBE", "r2SCAN", "CIDER24X-ne"]))
        if rng.chance(0.4):
            a.set("nested", {"e_tot": float(r.normal()), "parts": {"ha": r.normal(size=3), "n": int(r.integers(0, 9))}})
        if rng.chance(0.3):
            a.set("count", int(r.integers(0, 100)))
        return a

    an = build(0)
    other = build(1)
    ref = analyzer_digest(an)
    ref_other = analyzer_digest(other)
    ck.dg.add(ref)
    wd = tempfile.mkdtemp(prefix="fsim_an_", dir=os.environ.get("VERIF_SCRATCH", "/tmp"))
    try:
        cur = an
        for c in range(3):
            path = os.path.join(wd, "an.v%d.hdf5" % c)
            try:
                if c == 1:
                    # the path already holds another analyzer: a dump replaces it
                    other.dump(path)
                    ck.stats["analyzer_overwrites"] += 1
                cur.dump(path)
                if c == 2:
                    # a later dump of another analyzer to another path must not matter
                    other.dump(os.path.join(wd, "other.hdf5"))
                    if analyzer_digest(ElectronAnalyzer.load(os.path.join(wd, "other.hdf5"))) != ref_other:
                        ck.v("roundtrip:ElectronAnalyzer.load:%s:mismatch" % cls.__name__, "second analyzer differs after reload", rp)
                cur = ElectronAnalyzer.load(path)
            except Exception as e:
                ck.v("roundtrip:ElectronAnalyzer:%s:raises-%s" % (cls.__name__, type(e).__name__), str(e)[:200], rp)
                break
            ck.stats["analyzer_cycles"] += 1
            d = analyzer_digest(cur)
            if d != ref:
                ck.v("roundtrip:ElectronAnalyzer.load:%s:mismatch" % cls.__name__, "cycle %d: reloaded analyzer differs" % c, rp)
                break
        # fresh interpreter, other hash seed
        if not ck.viol:
            env = dict(os.environ)
            env["PYTHONHASHSEED"] = str(1 + spec["seed"] % 4000)
            env["PYTHONPATH"] = os.path.dirname(os.path.dirname(os.path.dirname(os.path.abspath(__file__))))
            p = subprocess.run([sys.executable, "-m", "cidersim.engines.fsim_child", "--analyzer", os.path.join(wd, "an.v0.hdf5")], capture_output=True, env=env, timeout=600)
            ck.stats["restarts"] += 1
            out = p.stdout.decode().strip().splitlines()
            if p.returncode != 0 or not out or out[-1] != ref:
                ck.v("restart:ElectronAnalyzer.load:differs-in-fresh-process", (out[-1] if out else p.stderr.decode()[-200:])[:200], rp)
    finally:
        shutil.rmtree(wd, ignore_errors=True)
    ck.sample = {"analyzer": cls.__name__, "mol_nao": nao}
    return finish(ck, spec, nontrivial=ck.stats["analyzer_cycles"] > 0)


# ---------------------------------------------------------------------------------
# engine protocol
# ---------------------------------------------------------------------------------
def warm(args):
    boot.activate("plain")
    import joblib  # noqa: F401
    import yaml  # noqa: F401

    import ciderpress.dft.model_utils  # noqa: F401
    import ciderpress.dft.plans  # noqa: F401
    from cidersim import zoo  # noqa: F401

    # trigger numba compilation of the spline evaluators once, before forking
    fe, _ = make_obj({"obj": "spline", "N1": 3, "seed": 0})
    eval_spline(fe, 1)
    all_map_names()


MODEL_GRID = [
    ("sl_npa", "rbf", "SEP", 1),
    ("sl_nst", "spline", "NPOL", 1),
    ("sl_ns", "kernel", "SEP", 1),
    ("sl_np", "linear", "NPOL", 1),
    ("nldf_j", "rbf", "SEP", 1),
    ("nldf_j_all", "spline+rbf", "SEP", 2),
    ("nldf_j_gga", "rbf+linear", "NPOL", 1),
    ("nldf_i", "kernel", "NPOL", 2),
    ("nldf_i_l1", "rbf", "POL", 1),
    ("nldf_ij", "spline", "SEP", 2),
    ("nldf_k", "rbf", "SEP", 1),
    ("sdmx", "rbf", "SEP", 1),
    ("sdmxg", "linear", "SEP", 2),
    ("sdmx1", "spline+rbf", "NPOL", 1),
    ("sdmxg1", "rbf", "POL", 2),
    ("nldf_j_sdmx", "kernel", "SEP", 1),
    ("sdmxfull", "rbf", "SEP", 1),
    ("sdmxfull", "linear", "NPOL", 1),
    ("sl_npa", "antisym", "SEP", 1),
    ("nldf_j", "antisym+linear", "NPOL", 1),
]


def plan(tier, seed, args):
    rng = Rng(derive(seed, PROP, "plan"))
    cases = []
    ndraw = 4 if tier == "quick" else 12
    # enumerated: every registered map class x draws x styles
    for nm in all_map_names():
        for d in range(ndraw):
            desc = {"obj": "map", "cls": nm, "style": d % 4, "seed": rng.below(10**6)}
            cases.append({"kind": "enum", "desc": desc, "fmt": "yaml"})
    cases.append({"kind": "enum", "desc": {"obj": "featurelist", "n": 0, "seed": 1}, "fmt": "yaml"})  # a list without entries is a list
    cases.append({"kind": "enum", "desc": {"obj": "featurelist", "n": 1, "seed": 2}, "fmt": "yaml"})
    for d in range(ndraw):
        cases.append({"kind": "enum", "desc": {"obj": "featurelist_all", "seed": rng.below(10**6)}, "fmt": "yaml"})
        cases.append({"kind": "enum", "desc": {"obj": "featurelist", "n": rng.randint(2, 9), "seed": rng.below(10**6)}, "fmt": "yaml"})
        cases.append({"kind": "enum", "desc": {"obj": "spline", "N1": rng.randint(2, 5), "seed": rng.below(10**6)}, "fmt": "yaml"})
    grid = list(MODEL_GRID)
    if tier == "quick":
        # every model composition once, format rotating with the seed; all formats in thorough
        for k, (s, ev, mode, ver) in enumerate(grid):
            fmt = ["yaml", "cyaml", "joblib"][(k + seed) % 3]
            desc = {"obj": "model", "settings": s, "ev": ev, "mode": mode, "version": ver, "seed": rng.below(10**6), "nkernel": 1 + (k % 2)}
            cases.append({"kind": "enum", "desc": desc, "fmt": fmt, "wcap": 120, "cycles": 2})
    else:
        for k, (s, ev, mode, ver) in enumerate(grid):
            for fmt in ["yaml", "cyaml", "joblib"]:
                for d in range(2):
                    desc = {"obj": "model", "settings": s, "ev": ev, "mode": mode, "version": ver, "seed": rng.below(10**6), "nkernel": 1 + ((k + d) % 2)}
                    cases.append({"kind": "enum", "desc": desc, "fmt": fmt})
    # every array layout a caller may hand to the array-carrying evaluators (a view keeps its
    # strides in memory, a file does not)
    # (with a single feature NumPy takes other code paths for strided operands)
    for ev_, mode_, st_ in (("rbf", "SEP", "sl_npa"), ("kernel", "SEP", "sl_npa"), ("kernel", "SEP", "sl_ns"), ("kernel", "NPOL", "sl_ns"), ("rbf", "POL", "sl_ns"), ("rbf+linear", "NPOL", "sl_npa")):
        for lay in ("strided", "fortran", "cols", "readonly"):
            desc = {"obj": "model", "settings": st_, "ev": ev_, "mode": mode_, "version": 1, "seed": rng.below(10**6), "nkernel": 1, "layout": lay}
            cases.append({"kind": "enum", "desc": desc, "fmt": ["yaml", "cyaml", "joblib"][rng.below(3)], "wcap": 60, "cycles": 2})
    # restarts over the enumerated objects, batched
    items = [(c["desc"], c["fmt"]) for c in cases if c["kind"] == "enum"]
    nb = 6 if tier == "quick" else 24
    for b in range(nb):
        cases.append({"kind": "restart", "items": items[b::nb], "seed": rng.below(10**6)})
    # writer process / busy reader process
    spl = [it for it in items if it[0]["obj"] == "spline" or (it[0]["obj"] == "model" and "spline" in str(it[0].get("ev")))]
    oth = [it for it in items if it not in spl]
    for b in range(2 if tier == "quick" else 12):
        sel = spl[b::2][:6] + oth[b::7][:4] if tier == "quick" else [spl[rng.below(len(spl))] for _ in range(6)] + [oth[rng.below(len(oth))] for _ in range(4)]
        cases.append({"kind": "restart2", "items": sel, "seed": rng.below(10**6)})
    # corruption
    for d in range(2 if tier == "quick" else 8):
        cases.append({"kind": "corrupt", "seed": rng.below(10**6)})
    for d in range(10 if tier == "quick" else 80):
        cases.append({"kind": "analyzer", "seed": rng.below(10**6)})
    # seeded histories
    nh = args.cases if args.cases is not None else (240 if tier == "quick" else 12000)
    for i in range(nh):
        cases.append({"kind": "history", "seed": derive(seed, PROP, "hist", i) % (10**9), "restart": (i % (6 if tier == "quick" else 10) == 0), "real_fs": (i % 4 == 3)})
    # concurrent clients: two or three threads of the process save / load their own files, the
    # seeded scheduler interleaves them at every operation on the simulated tree
    nc = (args.cases // 2) if args.cases is not None else (120 if tier == "quick" else 6000)
    for i in range(nc):
        cases.append({"kind": "concurrent", "seed": derive(seed, PROP, "conc", i) % (10**9)})
    # cheap cases last would starve the long ones; interleave deterministically
    rng.shuffle(cases)
    cases.sort(key=lambda c: 0 if (c["kind"] == "enum" and c["desc"]["obj"] == "model") else 1)
    return cases


def run_case(spec):
    k = spec["kind"]
    if k == "enum":
        return run_enum(spec)
    if k == "restart2":
        return run_restart2(spec)
    if k == "corrupt":
        return run_corrupt(spec)
    if k == "history":
        return run_history(spec)
    if k == "restart":
        return run_restart(spec)
    if k == "analyzer":
        return run_analyzer(spec)
    if k == "concurrent":
        from cidersim.engines import fsim_conc

        return fsim_conc.run(spec)
    raise ValueError(k)


def replay(rp):
    boot.activate("plain")
    return run_case(rp["case"])


def on_crash(spec, status):
    """the interpreter died (SIGSEGV/SIGBUS/...) inside a save/load history: objects that
    were loaded from acknowledged files could not be evaluated, or a dump/load took the
    process down - both break "reload to objects that evaluate identically".  Watchdog and
    out-of-memory kills stay harness errors."""
    from cidersim.driver import fatal_signal

    sig = fatal_signal(status)
    if sig is None or spec.get("kind") != "history":
        return None
    key = "history:process-died:signal%d:crash" % sig
    rp = {"property": PROP, "engine": "fsim", "case": dict(spec), "violation": {"key": key}}
    return {"key": key, "detail": "worker killed by signal %d while executing history %s" % (sig, json.dumps(spec)[:200]), "replay": rp}


def minimise(v):
    """delta-debug history op lists; other case kinds are already minimal (one object)."""
    case = v["replay"].get("case", {})
    if case.get("kind") == "concurrent":
        return minimise_concurrent(v)
    if case.get("kind") == "history" and "hist" not in case and "seed" in case:
        case = dict(case, hist=gen_history(case["seed"]))
        v = dict(v, replay=dict(v["replay"], case=case))
    if case.get("kind") != "history" or "hist" not in case:
        return v
    hist = case["hist"]
    key = v["key"]
    from cidersim.driver import run_pool

    def fails(h):
        c = {"kind": "history", "hist": h, "seed": case.get("seed", 0), "restart": case.get("restart", False), "real_fs": case.get("real_fs", False)}
        r = run_pool([c], run_case, nproc=1, case_timeout=600)[0]
        if key.endswith(":crash"):
            return bool(r) and "crashed" in r
        return bool(r) and any(x["key"] == key for x in r.get("violations", []))

    ops = list(hist["ops"])
    changed = True
    while changed and len(ops) > 1:
        changed = False
        for i in range(len(ops)):
            cand = ops[:i] + ops[i + 1 :]
            if fails(dict(hist, ops=cand)):
                ops = cand
                changed = True
                break
    v = dict(v)
    rp = dict(v["replay"])
    rp["case"] = dict(case, hist=dict(hist, ops=ops))
    rp["minimised_from_ops"] = len(hist["ops"])
    v["replay"] = rp
    return v


def minimise_concurrent(v):
    """drop operations of clients (and whole clients) while the same violation key persists;
    the schedule is re-drawn from the recorded scheduler seed for every candidate"""
    from cidersim.driver import run_pool
    from cidersim.engines import fsim_conc

    case = v["replay"]["case"]
    hist = case.get("hist") or fsim_conc.gen(case["seed"])
    key = v["key"]

    def fails(h):
        r = run_pool([{"kind": "concurrent", "hist": h}], run_case, nproc=1, case_timeout=600)[0]
        return bool(r) and any(x["key"] == key for x in r.get("violations", []))

    cl = [list(c) for c in hist["clients"]]
    n0 = sum(len(c) for c in cl)
    changed = True
    tries = 0
    while changed and tries < 60:
        changed = False
        for t in range(len(cl)):
            for i in range(len(cl[t])):
                cand = [list(c) for c in cl]
                del cand[t][i]
                tries += 1
                # (several scheduler seeds: removing an operation shifts every later draw)
                for ss in (hist["sseed"], hist["sseed"] + 1, hist["sseed"] + 2):
                    if fails(dict(hist, clients=cand, sseed=ss)):
                        cl = cand
                        hist = dict(hist, sseed=ss)
                        changed = True
                        break
                if changed:
                    break
            if changed:
                break
    v = dict(v)
    rp = dict(v["replay"])
    rp["case"] = {"kind": "concurrent", "hist": dict(hist, clients=cl)}
    rp["minimised_from_ops"] = n0
    v["replay"] = rp
    return v


def coverage(done, tier):
    tot = Counter()
    kinds = Counter()
    samples = []
    classes = set()
    comps = set()
    exhaustive = True
    for spec, res in done:
        kinds[spec["kind"]] += 1
        for k, v in res.get("stats", {}).items():
            tot[k] += v
        if spec["kind"] == "enum":
            d = spec["desc"]
            if d["obj"] == "map":
                classes.add(d["cls"])
            if d["obj"] == "model":
                comps.add("%s/%s/%s/v%d/%s" % (d["settings"], d["ev"], d["mode"], d["version"], spec["fmt"]))
        if res.get("sample") and len(samples) < 6 and (len(samples) < 3 or spec["kind"] == "history"):
            samples.append(res["sample"])
    n_enum = kinds["enum"]
    if tot.get("exhaustive_write_enum", 0) < tot.get("enum_objects", 0):
        exhaustive = False
    return {
        "rule": "cases = enumerated (object x format) fault sweeps + restart batches + corruption sets + seeded histories; "
        "a case is non-trivial if it completed at least one acknowledged round trip (enum/history), one fresh-process load "
        "(restart) or one corruption probe; distinct = distinct event-log digests (object/file-content/op digests) among those",
        "samples": samples,
        "exhaustive": bool(exhaustive),
        "exhaustive_note": "every raw write index and every raw read index of every enumerated dump/load is faulted once "
        "(capped at 400 per object in thorough, 120 for whole models in quick; exhaustive=false if any cap was hit)",
        "cases_by_kind": dict(kinds),
        "map_classes_enumerated": sorted(classes),
        "model_compositions_enumerated": sorted(comps),
        "fault_kinds_fired": {
            "write_error_ENOSPC_sticky": tot.get("fs_write_errors_injected", 0),
            "read_error_EIO": tot.get("fs_read_errors_injected", 0),
            "open_error_EACCES": tot.get("fs_open_errors_injected", 0),
            "short_writes": tot.get("fs_short_writes", 0),
            "short_reads": tot.get("fs_short_reads", 0),
            "truncating_overwrites": tot.get("fs_truncating_opens", 0),
            "process_restarts": tot.get("restarts", 0),
            "semantic_corruptions": tot.get("corruptions", 0),
            "loads_under_relative_names": tot.get("relative_name_loads", 0),
            "loads_with_stated_format_under_other_extension": tot.get("stated_format_loads", 0),
            # 0 on a tree whose loaders read no environment variable (nothing to redirect)
            "loads_with_environment_variables_redirected": tot.get("loads_under_changed_environment", 0),
            "two_process_restarts_with_busy_reader": tot.get("two_process_restarts", 0),
            "interleaved_client_threads_cases": tot.get("conc_cases_interleaved", 0),
            "interleaved_client_switches": tot.get("conc_switches", 0),
            "client_dumps_failed_by_injection_while_others_run": tot.get("conc_dumps_failed_by_injection", 0),
        },
        "simulated_steps": {
            "raw_write_calls": tot.get("fs_raw_write_calls", 0),
            "raw_read_calls": tot.get("fs_raw_read_calls", 0),
            "opens": tot.get("fs_opens", 0),
            "preemption_points_of_concurrent_clients": tot.get("conc_preemption_points", 0),
        },
        "counters": dict(tot),
        "fault_free_roundtrips": tot.get("roundtrips", 0) + tot.get("cycles", 0) + tot.get("dict_roundtrips", 0),
        "fault_injecting_executions": tot.get("write_faults", 0) + tot.get("read_faults", 0) + tot.get("short_io_roundtrips", 0),
        "real_components": ["ciderpress (working tree)", "PyYAML (C and pure-Python loaders/dumpers)", "joblib", "numpy", "io.Buffered*/TextIOWrapper", "libmcider/libxc_utils (plain build)"],
        "stub_components": ["raw file layer (SimFS, in memory)", "FFTW (never called)"],
        "simulated_time": "not applicable: no clock or timer is read by any code on this surface",
    }


