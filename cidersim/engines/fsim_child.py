"""Fresh-interpreter half of the restart fault: receives file bytes on stdin, loads them
through the package's loaders from an in-memory file system and prints evaluation digests."""
import base64
import json
import sys


def main():
    if len(sys.argv) > 2 and sys.argv[1] == "--analyzer":
        from cidersim import boot

        boot.activate("plain")
        from ciderpress.pyscf.analyzers import ElectronAnalyzer
        from cidersim.engines import fsim

        an = ElectronAnalyzer.load(sys.argv[2])
        sys.stdout.write("\n" + fsim.analyzer_digest(an) + "\n")
        return
    if len(sys.argv) > 2 and sys.argv[1] == "--corrupt":
        from cidersim import boot

        boot.activate("plain")
        from cidersim.engines import fsim

        out = fsim.run_corrupt({"kind": "corrupt", "seed": int(sys.argv[2]), "in_child": True})
        sys.stdout.write("\n" + json.dumps({"keys": sorted(set(v["key"] for v in out["violations"]))}) + "\n")
        return
    job = json.loads(sys.stdin.read())
    from cidersim import boot

    boot.activate("plain")
    from cidersim.engines import fsim

    fs = fsim.SimFS(fsim.ROOT)
    fs.install()
    out = []
    if job.get("write_items"):
        # writer process of a two-process restart: build, evaluate, dump, hand the bytes back
        files = []
        try:
            for k, (desc, fmt) in enumerate(job["write_items"]):
                obj, kind = fsim.make_obj(desc)
                ref = fsim.EVAL[kind](obj, job["probe_seed"]) + "|" + fsim.type_sig(obj, kind)
                path = "%s/w%d%s" % (fsim.ROOT, k, fsim.EXT[fmt])
                fsim.do_dump(obj, kind, fmt, path)
                files.append({"path": path, "kind": kind, "fmt": fmt, "ref": ref, "b64": base64.b64encode(fs.read_bytes(path)).decode()})
        finally:
            fs.uninstall()
        sys.stdout.write("\n" + json.dumps({"files": files}) + "\n")
        return
    # a reader process has a life of its own: objects of the same kinds built and used before
    # the files are loaded, and used again afterwards
    pre = []
    for desc in job.get("pre_items", []):
        obj, kind = fsim.make_obj(desc)
        pre.append((obj, kind, fsim.EVAL[kind](obj, job["probe_seed"])))
    try:
        for f in job["files"]:
            fs.write_bytes(f["path"], base64.b64decode(f["b64"]))
            try:
                o = fsim.do_load(f["kind"], f["fmt"], f["path"])
                out.append(fsim.EVAL[f["kind"]](o, job["probe_seed"]) + "|" + fsim.type_sig(o, f["kind"]))
            except Exception as e:
                out.append("raise:" + type(e).__name__ + ":" + str(e)[:100])
    finally:
        fs.uninstall()
    pre_changed = [i for i, (obj, kind, d0) in enumerate(pre) if fsim.EVAL[kind](obj, job["probe_seed"]) != d0]
    sys.stdout.write("\n" + json.dumps({"results": out, "pre_changed": pre_changed, "pre": len(pre)}) + "\n")


if __name__ == "__main__":
    main()
