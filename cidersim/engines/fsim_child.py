"""Fresh-interpreter half of the restart fault: receives file bytes on stdin, loads them
through the package's loaders from an in-memory file system and prints evaluation digests."""
import base64
import json
import sys


def main():
    if len(sys.argv) > 2 and sys.argv[1] == "--analyzer":
        from cidersim import boot

        boot.activate("plain")
        from ciderpress.pyscf.analyzers import ElectronAnalyzer
        from cidersim.engines import fsim

        an = ElectronAnalyzer.load(sys.argv[2])
        sys.stdout.write("\n" + fsim.analyzer_digest(an) + "\n")
        return
    if len(sys.argv) > 2 and sys.argv[1] == "--corrupt":
        from cidersim import boot

        boot.activate("plain")
        from cidersim.engines import fsim

        out = fsim.run_corrupt({"kind": "corrupt", "seed": int(sys.argv[2]), "in_child": True})
        sys.stdout.write("\n" + json.dumps({"keys": sorted(set(v["key"] for v in out["violations"]))}) + "\n")
        return
    job = json.loads(sys.stdin.read())
    from cidersim import boot

    boot.activate("plain")
    from cidersim.engines import fsim

    fs = fsim.SimFS(fsim.ROOT)
    fs.install()
    out = []
    try:
        for f in job["files"]:
            fs.write_bytes(f["path"], base64.b64decode(f["b64"]))
            try:
                o = fsim.do_load(f["kind"], f["fmt"], f["path"])
                out.append(fsim.EVAL[f["kind"]](o, job["probe_seed"]) + "|" + fsim.type_sig(o, f["kind"]))
            except Exception as e:
                out.append("raise:" + type(e).__name__ + ":" + str(e)[:100])
    finally:
        fs.uninstall()
    sys.stdout.write("\n" + json.dumps({"results": out}) + "\n")


if __name__ == "__main__":
    main()
