"""Failure injection at a seeded point inside a call (shared by the history engines)."""
import os
import sys

from cidersim import boot


class InjectedFault(MemoryError):
    pass


class InjectedInterrupt(KeyboardInterrupt):
    """the other kind of interruption: not an Exception, so `except Exception` clean-up code
    in the package does not see it"""


class CallInterrupted(Exception):
    """what the harness sees when an InjectedInterrupt left the call"""


class FaultAt:
    """Fail a call at a seeded point: the k-th Python line executed inside the package
    during the call raises MemoryError there (an allocation that fails, or the user's
    Ctrl-C, at an arbitrary instant).  The interrupted call is un-acknowledged - nothing
    is demanded of it - but every later call on the same objects must still answer like
    fresh objects do."""

    def __init__(self, k, site=None, shallow=0):
        """k: ordinal of the line event (inside the package) at which to fail; negative =
        KeyboardInterrupt.  site = [function, nth]: fail at the nth line executed in that
        function instead - what a run records when it fires, so that a replay in another
        process (where one-time initialisation code shifts the global count) fails at the same
        place.  shallow = D: k counts only lines executed in package frames at most D deep
        below the call's entry point (where objects record what they are set up for; a failure
        anywhere inside a deeper callee surfaces at exactly these lines), which makes the
        fault points of a call few enough to be enumerated.  shallow = -1: k counts only lines
        of __init__ methods (any depth): the points at which an object is half-built."""
        self.kbd = bool(k) and int(k) < 0  # negative ordinal: KeyboardInterrupt instead of MemoryError
        self.k = abs(int(k)) if k else 0
        self.n = 0
        self.fired = False
        self.where = None
        self.site = (str(site[0]), int(site[1])) if site else None
        self.per = {}
        self.nth = 0
        self.shallow = int(shallow) if shallow else 0
        self.nshallow = 0
        self.prefix = os.path.join(os.path.realpath(boot.repo_root()), "ciderpress") + os.sep

    def _local(self, frame, event, arg):
        if event == "line":
            self.n += 1
            w = "%s:%s" % (frame.f_code.co_filename[len(self.prefix) :], frame.f_code.co_name)
            c = self.per[w] = self.per.get(w, 0) + 1
            if self.shallow < 0 and self.site is None:
                # constructor mode: only lines of __init__ methods count (at any depth) - where
                # objects that own C resources are half-built
                if frame.f_code.co_name != "__init__":
                    return self._local
                self.nshallow += 1
                hit = self.nshallow == self.k
            elif self.shallow and self.site is None:
                d, fr = 0, frame
                while fr is not None:
                    if fr.f_code.co_filename.startswith(self.prefix):
                        d += 1
                    fr = fr.f_back
                if d > self.shallow:
                    return self._local
                self.nshallow += 1
                hit = self.nshallow == self.k
            else:
                hit = (self.site is not None and w == self.site[0] and c == self.site[1]) or (self.site is None and self.n == self.k)
            if hit and not self.fired:
                self.fired = True
                self.where = w
                self.nth = c
                if self.kbd:
                    raise InjectedInterrupt("injected interrupt at %s line %d" % (w, c))
                raise InjectedFault("injected failure at %s line %d" % (w, c))
        return self._local

    def _global(self, frame, event, arg):
        fn = frame.f_code.co_filename
        if fn.startswith(self.prefix) or os.path.realpath(fn).startswith(self.prefix):
            return self._local
        return None

    def __enter__(self):
        if self.k:
            sys.settrace(self._global)
        return self

    def __exit__(self, et, ev, tb):
        if self.k:
            sys.settrace(None)
        if et is not None and issubclass(et, InjectedInterrupt):
            raise CallInterrupted(str(ev)) from ev
        return False


def for_op(op):
    """injector for a history operation; once it has fired, the operation remembers the site
    (the history object is what goes into the replay file)"""
    return FaultAt(op.get("fault"), op.get("fault_site"), shallow=op.get("fault_shallow", 0))


def remember(op, inj):
    if inj.fired and not op.get("fault_site"):
        op["fault_site"] = [inj.where, inj.nth]


def draw_fault(rng, hi=3000):
    """line-event ordinal, log-uniform so that early set-up code and late accumulation code
    are both hit"""
    import math

    k = int(math.exp(rng.uniform(0.0, math.log(hi)))) + 1
    return -k if rng.chance(0.3) else k
