"""SplitMix64: the single source of every random choice of a run.

A run's stream is seeded with H(VERIF_SEED, property, run_index); nothing else (no
`random`, no numpy global state, no clock) may decide anything."""
import hashlib
import struct

MASK = (1 << 64) - 1


def derive(*parts):
    """Stable 64-bit hash of the parts (ints/strings), independent of PYTHONHASHSEED."""
    h = hashlib.sha256(("\x1f".join(str(p) for p in parts)).encode()).digest()
    return struct.unpack("<Q", h[:8])[0]


class Rng:
    def __init__(self, seed):
        self.s = seed & MASK
        self.draws = 0

    def u64(self):
        self.draws += 1
        self.s = (self.s + 0x9E3779B97F4A7C15) & MASK
        z = self.s
        z = ((z ^ (z >> 30)) * 0xBF58476D1CE4E5B9) & MASK
        z = ((z ^ (z >> 27)) * 0x94D049BB133111EB) & MASK
        return z ^ (z >> 31)

    def below(self, n):
        assert n > 0
        return self.u64() % n

    def randint(self, lo, hi):
        """inclusive"""
        return lo + self.below(hi - lo + 1)

    def random(self):
        return (self.u64() >> 11) / float(1 << 53)

    def uniform(self, a, b):
        return a + (b - a) * self.random()

    def chance(self, p):
        return self.random() < p

    def choice(self, seq):
        return seq[self.below(len(seq))]

    def weighted(self, pairs):
        tot = sum(w for _, w in pairs)
        x = self.random() * tot
        acc = 0.0
        for v, w in pairs:
            acc += w
            if x < acc:
                return v
        return pairs[-1][0]

    def shuffle(self, lst):
        for i in range(len(lst) - 1, 0, -1):
            j = self.below(i + 1)
            lst[i], lst[j] = lst[j], lst[i]
        return lst

    def sample(self, seq, k):
        lst = list(seq)
        self.shuffle(lst)
        return lst[:k]

    def subset(self, seq, p=0.5):
        return [x for x in seq if self.chance(p)]

    def fork(self, *tag):
        return Rng(derive(self.u64(), *tag))

    def np_rng(self):
        import numpy as np

        return np.random.default_rng(self.u64())


class Digest:
    """64-bit FNV-1a over the event log of a run."""

    def __init__(self):
        self.h = 0xCBF29CE484222325
        self.n = 0

    def add(self, *items):
        for it in items:
            if isinstance(it, bytes):
                b = it
            elif isinstance(it, float):
                b = struct.pack("<d", it)
            else:
                b = str(it).encode()
            for c in hashlib.blake2b(b, digest_size=8).digest():
                self.h = ((self.h ^ c) * 0x100000001B3) & MASK
            self.n += 1

    def add_array(self, a):
        import numpy as np

        a = np.ascontiguousarray(a)
        self.add(str(a.dtype), str(a.shape), a.tobytes())

    def hex(self):
        return "%016x" % self.h
