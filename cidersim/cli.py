import importlib
import sys

ENGINES = {
    "C14": "cidersim.engines.fsim",
    "C16": "cidersim.engines.gphist",
    "C09": "cidersim.engines.history",
    "C10": "cidersim.engines.omp_sched",
}


def main():
    if len(sys.argv) < 2:
        print("usage: bin/check <C09|C10|C14|C16|selftest> [--tier quick|thorough] [--replay f]")
        return 2
    what = sys.argv[1]
    if what == "selftest":
        from cidersim import selftest

        return selftest.main(sys.argv[2:])
    if what not in ENGINES:
        print("HARNESS-ERROR unknown property %s" % what)
        return 2
    eng = importlib.import_module(ENGINES[what])
    from cidersim.driver import run_engine

    return run_engine(eng, what, sys.argv[2:])


if __name__ == "__main__":
    sys.exit(main())
