"""Import this first.  Pins the environment, puts the repository under test first on
sys.path and makes `ciderpress.lib.load_library` load the libraries built by
cidersim.build (the seam every ciderpress module already goes through)."""
import ctypes
import os
import sys

os.environ.setdefault("OMP_NUM_THREADS", "1")
os.environ.setdefault("OPENBLAS_NUM_THREADS", "1")
os.environ.setdefault("MKL_NUM_THREADS", "1")
os.environ.setdefault("NUMBA_NUM_THREADS", "1")
os.environ.setdefault("NUMBA_CACHE_DIR", "/tmp/.verif_numba_cache")
os.environ.setdefault("PYSCF_MAX_MEMORY", "4000")

import warnings  # noqa: E402

warnings.filterwarnings("ignore")
os.environ.setdefault("PYTHONWARNINGS", "ignore")

from cidersim import build as _build  # noqa: E402

_state = {"variant": None, "dir": None, "libs": {}}


def repo_root():
    return _build.repo_root()


def activate(variant="plain"):
    """Build (if needed) and route ciderpress' load_library to `variant`.

    Must be called before any ciderpress module other than ciderpress.lib is imported."""
    if _state["variant"] is not None:
        if _state["variant"] != variant:
            raise RuntimeError("boot already activated with variant %s" % _state["variant"])
        return _state["dir"]
    repo = repo_root()
    d = _build.build(variant, repo)
    if repo in sys.path:
        sys.path.remove(repo)
    sys.path.insert(0, repo)
    for m in list(sys.modules):
        if m == "ciderpress" or m.startswith("ciderpress."):
            raise RuntimeError("ciderpress imported before cidersim.boot.activate()")
    if _build.VARIANTS[variant]["sim"]:
        # NOT RTLD_GLOBAL: the simulator must only serve the CiderPress libraries (which
        # link to it by DT_NEEDED + rpath), never OpenMP code of numpy/scipy/sklearn/pyscf
        _state["libs"]["libsimgomp"] = ctypes.CDLL(os.path.join(d, "libsimgomp.so"))

    def load_library(libname):
        if libname not in _state["libs"]:
            p = os.path.join(d, libname + ".so")
            if not os.path.exists(p):
                raise OSError("verification build has no %s" % libname)
            _state["libs"][libname] = ctypes.CDLL(p)
        return _state["libs"][libname]

    import ciderpress.lib.load as _load

    assert os.path.realpath(_load.__file__).startswith(os.path.realpath(repo)), (
        _load.__file__,
        repo,
    )
    _load.load_library = load_library
    import ciderpress.lib as _lib

    _lib.load_library = load_library
    _state["variant"] = variant
    _state["dir"] = d
    return d


def simlib():
    return _state["libs"].get("libsimgomp")


def lib(name):
    return _state["libs"][name]


def build_dir():
    return _state["dir"]
