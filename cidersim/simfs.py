"""In-memory file system with fault injection under builtins.open.

The raw layer sits beneath *real* io.BufferedWriter/BufferedReader/TextIOWrapper objects so
that yaml.dump / yaml.load / joblib.dump / joblib.load and the repository's dump/load
methods run unmodified.  Faults are injected at raw read/write calls:

  short writes / short reads   the raw call transfers fewer bytes than asked (legal)
  ENOSPC / EIO at call i       sticky for the handle (a real full disk stays full)

No power-loss semantics: a completed, closed write is on "disk"."""
import builtins
import errno
import io
import os
from collections import Counter


class SimRaw(io.RawIOBase):
    def __init__(self, fs, path, buf, readable, writable, append, plan):
        super().__init__()
        self.fs = fs
        self.path = path
        self.buf = buf
        self._r = readable
        self._w = writable
        self._append = append
        self.pos = len(buf) if append else 0
        self.plan = plan or {}
        self.nwrite = 0
        self.nread = 0
        self.failed = False
        self.name = path

    def readable(self):
        return self._r

    def writable(self):
        return self._w

    def seekable(self):
        return True

    def seek(self, off, whence=0):
        if whence == 0:
            self.pos = off
        elif whence == 1:
            self.pos += off
        else:
            self.pos = len(self.buf) + off
        if self.pos < 0:
            raise OSError(errno.EINVAL, "negative seek")
        return self.pos

    def tell(self):
        return self.pos

    def truncate(self, size=None):
        if size is None:
            size = self.pos
        del self.buf[size:]
        if len(self.buf) < size:
            self.buf.extend(b"\0" * (size - len(self.buf)))
        return size

    def fileno(self):
        raise OSError("SimFS file has no fileno")

    def write(self, b):
        if not self._w:
            raise io.UnsupportedOperation("not writable")
        i = self.nwrite
        self.nwrite += 1
        self.fs.stats["raw_write_calls"] += 1
        fw = self.plan.get("fail_write_at")
        if self.failed or (fw is not None and i >= fw):
            self.failed = True
            self.fs.stats["write_errors_injected"] += 1
            raise OSError(self.plan.get("errno", errno.ENOSPC), "injected write error", self.path)
        mv = memoryview(b).cast("B")
        n = len(mv)
        chunk = self.plan.get("write_chunk")
        if chunk is not None and n > 0:
            k = chunk(i, n)
            k = max(1, min(n, k))
            if k < n:
                self.fs.stats["short_writes"] += 1
            n = k
        if self._append:
            self.pos = len(self.buf)
        end = self.pos + n
        if self.pos > len(self.buf):
            self.buf.extend(b"\0" * (self.pos - len(self.buf)))
        self.buf[self.pos : end] = mv[:n]
        self.pos = end
        return n

    def readinto(self, b):
        if not self._r:
            raise io.UnsupportedOperation("not readable")
        i = self.nread
        self.nread += 1
        self.fs.stats["raw_read_calls"] += 1
        fr = self.plan.get("fail_read_at")
        if fr is not None and i >= fr:
            self.fs.stats["read_errors_injected"] += 1
            raise OSError(errno.EIO, "injected read error", self.path)
        mv = memoryview(b).cast("B")
        n = min(len(mv), max(0, len(self.buf) - self.pos))
        chunk = self.plan.get("read_chunk")
        if chunk is not None and n > 0:
            k = max(1, min(n, chunk(i, n)))
            if k < n:
                self.fs.stats["short_reads"] += 1
            n = k
        mv[:n] = self.buf[self.pos : self.pos + n]
        self.pos += n
        return n

    def close(self):
        if not self.closed:
            self.fs.last_counts[self.path] = (self.nwrite, self.nread)
        super().close()


class SimFS:
    def __init__(self, root="/simfs"):
        self.root = root.rstrip("/")
        self.files = {}
        self.armed = {}
        self.stats = Counter()
        self.last_counts = {}
        self._orig_open = None
        self._orig_exists = None
        self._orig_isfile = None

    # -- plumbing -----------------------------------------------------------------
    def owns(self, path):
        try:
            p = os.fspath(path)
        except TypeError:
            return False
        if isinstance(p, bytes):
            p = p.decode()
        return p == self.root or p.startswith(self.root + "/")

    def install(self):
        assert self._orig_open is None
        self._orig_open = builtins.open
        self._orig_io_open = io.open
        self._orig_exists = os.path.exists
        self._orig_isfile = os.path.isfile
        fs = self

        def sim_open(file, mode="r", buffering=-1, encoding=None, errors=None, newline=None, closefd=True, opener=None):
            if not fs.owns(file):
                return fs._orig_open(file, mode, buffering, encoding, errors, newline, closefd, opener)
            return fs.open(os.fspath(file), mode, buffering, encoding, errors, newline)

        def sim_exists(p):
            if fs.owns(p):
                return os.fspath(p) in fs.files or os.fspath(p) == fs.root
            return fs._orig_exists(p)

        def sim_isfile(p):
            if fs.owns(p):
                return os.fspath(p) in fs.files
            return fs._orig_isfile(p)

        builtins.open = sim_open
        io.open = sim_open
        os.path.exists = sim_exists
        os.path.isfile = sim_isfile

    def uninstall(self):
        if self._orig_open is not None:
            builtins.open = self._orig_open
            io.open = self._orig_io_open
            os.path.exists = self._orig_exists
            os.path.isfile = self._orig_isfile
            self._orig_open = None

    def arm(self, path, **plan):
        """Fault plan consumed by the next open() of `path`."""
        self.armed[path] = plan

    def disarm(self):
        self.armed.clear()

    def open(self, path, mode="r", buffering=-1, encoding=None, errors=None, newline=None):
        self.stats["opens"] += 1
        m = set(mode)
        binary = "b" in m
        plus = "+" in m
        creating = "x" in m
        writing = "w" in m
        appending = "a" in m
        reading = "r" in m or not (writing or appending or creating)
        if creating and path in self.files:
            raise FileExistsError(errno.EEXIST, "File exists", path)
        if reading and not (writing or appending or creating) and path not in self.files:
            raise FileNotFoundError(errno.ENOENT, "No such file or directory", path)
        plan = self.armed.pop(path, None)
        if plan and plan.get("fail_open"):
            self.stats["open_errors_injected"] += 1
            raise OSError(plan.get("errno", errno.EACCES), "injected open error", path)
        if writing or creating:
            buf = self.files.get(path)
            if buf is None:
                buf = self.files[path] = bytearray()
            else:
                del buf[:]
                self.stats["truncating_opens"] += 1
        elif appending:
            buf = self.files.setdefault(path, bytearray())
        else:
            buf = self.files[path]
        can_r = (reading and not (writing or appending or creating)) or plus
        can_w = writing or appending or creating or plus
        raw = SimRaw(self, path, buf, can_r, can_w, appending, plan)
        if buffering == 0:
            if not binary:
                raise ValueError("can't have unbuffered text I/O")
            return raw
        bs = buffering if buffering > 1 else io.DEFAULT_BUFFER_SIZE
        if plan and plan.get("buffer_size"):
            bs = plan["buffer_size"]
        if can_r and can_w:
            b = io.BufferedRandom(raw, bs)
        elif can_w:
            b = io.BufferedWriter(raw, bs)
        else:
            b = io.BufferedReader(raw, bs)
        if binary:
            return b
        t = io.TextIOWrapper(b, encoding or "utf-8", errors, newline, line_buffering=(buffering == 1))
        t.mode = mode
        return t

    # -- helpers for the harness --------------------------------------------------
    def read_bytes(self, path):
        return bytes(self.files[path])

    def write_bytes(self, path, data):
        self.files[path] = bytearray(data)

    def snapshot(self):
        return {p: bytes(b) for p, b in self.files.items()}
