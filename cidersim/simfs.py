"""In-memory file system with fault injection under builtins.open.

The raw layer sits beneath *real* io.BufferedWriter/BufferedReader/TextIOWrapper objects so
that yaml.dump / yaml.load / joblib.dump / joblib.load and the repository's dump/load
methods run unmodified.  Faults are injected at raw read/write calls:

  short writes / short reads   the raw call transfers fewer bytes than asked (legal)
  ENOSPC / EIO at call i       sticky for the handle (a real full disk stays full)

No power-loss semantics: a completed, closed write is on "disk"."""
import builtins
import errno
import io
import os
from collections import Counter


class SimRaw(io.RawIOBase):
    def __init__(self, fs, path, buf, readable, writable, append, plan):
        super().__init__()
        self.fs = fs
        self.path = path
        self.buf = buf
        self._r = readable
        self._w = writable
        self._append = append
        self.pos = len(buf) if append else 0
        self.plan = plan or {}
        self.nwrite = 0
        self.nread = 0
        self.failed = False
        self.name = path

    def readable(self):
        return self._r

    def writable(self):
        return self._w

    def seekable(self):
        return True

    def seek(self, off, whence=0):
        if whence == 0:
            self.pos = off
        elif whence == 1:
            self.pos += off
        else:
            self.pos = len(self.buf) + off
        if self.pos < 0:
            raise OSError(errno.EINVAL, "negative seek")
        return self.pos

    def tell(self):
        return self.pos

    def truncate(self, size=None):
        if size is None:
            size = self.pos
        del self.buf[size:]
        if len(self.buf) < size:
            self.buf.extend(b"\0" * (size - len(self.buf)))
        return size

    def fileno(self):
        raise OSError("SimFS file has no fileno")

    def write(self, b):
        if not self._w:
            raise io.UnsupportedOperation("not writable")
        self.fs._yp("write", self.path)
        i = self.nwrite
        self.nwrite += 1
        self.fs.stats["raw_write_calls"] += 1
        fw = self.plan.get("fail_write_at")
        if self.failed or (fw is not None and i >= fw):
            self.failed = True
            self.fs.stats["write_errors_injected"] += 1
            raise OSError(self.plan.get("errno", errno.ENOSPC), "injected write error", self.path)
        mv = memoryview(b).cast("B")
        n = len(mv)
        chunk = self.plan.get("write_chunk")
        if chunk is not None and n > 0:
            k = chunk(i, n)
            k = max(1, min(n, k))
            if k < n:
                self.fs.stats["short_writes"] += 1
            n = k
        if self._append:
            self.pos = len(self.buf)
        end = self.pos + n
        if self.pos > len(self.buf):
            self.buf.extend(b"\0" * (self.pos - len(self.buf)))
        self.buf[self.pos : end] = mv[:n]
        self.pos = end
        return n

    def readinto(self, b):
        if not self._r:
            raise io.UnsupportedOperation("not readable")
        self.fs._yp("read", self.path)
        i = self.nread
        self.nread += 1
        self.fs.stats["raw_read_calls"] += 1
        fr = self.plan.get("fail_read_at")
        if fr is not None and i >= fr:
            self.fs.stats["read_errors_injected"] += 1
            raise OSError(errno.EIO, "injected read error", self.path)
        mv = memoryview(b).cast("B")
        n = min(len(mv), max(0, len(self.buf) - self.pos))
        chunk = self.plan.get("read_chunk")
        if chunk is not None and n > 0:
            k = max(1, min(n, chunk(i, n)))
            if k < n:
                self.fs.stats["short_reads"] += 1
            n = k
        mv[:n] = self.buf[self.pos : self.pos + n]
        self.pos += n
        return n

    def close(self):
        if not self.closed:
            self.fs._yp("close", self.path)
            self.fs.last_counts[self.path] = (self.nwrite, self.nread)
            if self._w:
                self.fs.last_write_calls = self.nwrite
                self.fs.write_handles_closed += 1
            else:
                self.fs.last_read_calls = self.nread
        super().close()


class SimFS:
    def __init__(self, root="/simfs", real_dir=None):
        # real_dir: pass-through mode.  Paths under the root are mapped into a real scratch
        # directory and no fault is injected; used when the code under test needs something the
        # in-memory layer cannot offer (a real file descriptor).
        self.real_dir = real_dir
        self.root = root.rstrip("/")
        self.files = {}
        self.armed = {}
        self.stats = Counter()
        self.last_counts = {}
        self.last_write_calls = 0
        self.last_read_calls = 0
        self.write_handles_closed = 0
        self.armed_next = {}  # "w" / "r" -> plan for the next open of that kind, whatever its path
        self._orig_open = None
        self._orig_exists = None
        self._orig_isfile = None
        self.sim_cwd = None
        # concurrent clients (fsim_conc): `hook(label, path)` is called before every operation
        # on the simulated tree takes effect - the scheduler's pre-emption points - and
        # `plan_hook(path, kind)` supplies the fault plan of the client that opens a file
        self.hook = None
        self.plan_hook = None

    def _yp(self, label, path=None):
        if self.hook is not None:
            self.hook(label, path)

    # -- plumbing -----------------------------------------------------------------
    def key(self, path):
        """absolute name of `path` on the simulated tree, or None when it is not on it.
        Relative names are resolved against the simulated working directory (`sim_cwd`, a
        directory under the root) when one is set; otherwise they belong to the real tree."""
        try:
            p = os.fspath(path)
        except TypeError:
            return None
        if isinstance(p, bytes):
            p = p.decode()
        if not isinstance(p, str):
            return None
        if self.sim_cwd and not p.startswith("/"):
            p = os.path.normpath(self.sim_cwd + "/" + p)
            self.stats["relative_names_resolved"] += 1
        if p == self.root or p.startswith(self.root + "/"):
            return p
        return None

    def owns(self, path):
        return self.key(path) is not None

    def install(self):
        assert self._orig_open is None
        self._orig_open = builtins.open
        self._orig_io_open = io.open
        self._orig_exists = os.path.exists
        self._orig_isfile = os.path.isfile
        fs = self

        def sim_open(file, mode="r", buffering=-1, encoding=None, errors=None, newline=None, closefd=True, opener=None):
            if not fs.owns(file):
                return fs._orig_open(file, mode, buffering, encoding, errors, newline, closefd, opener)
            return fs.open(fs.key(file), mode, buffering, encoding, errors, newline)

        def sim_exists(p):
            if fs.owns(p):
                fs._yp("exists", p)
            if fs.real_dir and fs.owns(p):
                return fs.key(p) == fs.root or fs._orig_exists(fs._real(p))
            if fs.owns(p):
                return fs.key(p) in fs.files or fs.key(p) == fs.root or sim_isdir(p)
            return fs._orig_exists(p)

        def sim_isfile(p):
            if fs.owns(p):
                fs._yp("isfile", p)
            if fs.real_dir and fs.owns(p):
                return fs._orig_isfile(fs._real(p))
            if fs.owns(p):
                return fs.key(p) in fs.files
            return fs._orig_isfile(p)

        # a refactored dump may write a temporary file and rename it, remove a stale file,
        # create the directory or ask for the size: keep such code working on the simulated
        # tree (a FileNotFoundError from the *real* file system would be a false alarm)
        self._orig_os = {n: getattr(os, n) for n in ("replace", "rename", "remove", "unlink", "makedirs", "mkdir", "listdir", "stat")}
        self._orig_getsize = os.path.getsize
        self._orig_isdir = os.path.isdir

        def _p(x):
            k = fs.key(x)
            if k is not None:
                return k
            x = os.fspath(x)
            return x.decode() if isinstance(x, bytes) else x

        def sim_replace(src, dst, *a, **k):
            if fs.owns(src) or fs.owns(dst):
                fs._yp("replace", src)
            if fs.real_dir and (fs.owns(src) or fs.owns(dst)):
                return self._orig_os["replace"](fs._real(src) if fs.owns(src) else src, fs._real(dst) if fs.owns(dst) else dst)
            if fs.owns(src) or fs.owns(dst):
                if not (fs.owns(src) and fs.owns(dst)):
                    raise OSError(errno.EXDEV, "cross-device link between simulated and real file system")
                if _p(src) not in fs.files:
                    raise FileNotFoundError(errno.ENOENT, "No such file or directory", _p(src))
                fs.files[_p(dst)] = fs.files.pop(_p(src))
                fs.stats["renames"] += 1
                return None
            return self._orig_os["replace"](src, dst, *a, **k)

        def sim_remove(path, *a, **k):
            if fs.owns(path):
                fs._yp("remove", path)
            if fs.real_dir and fs.owns(path):
                return self._orig_os["remove"](fs._real(path))
            if fs.owns(path):
                if _p(path) not in fs.files:
                    raise FileNotFoundError(errno.ENOENT, "No such file or directory", _p(path))
                del fs.files[_p(path)]
                return None
            return self._orig_os["remove"](path, *a, **k)

        def sim_makedirs(path, *a, **k):
            if fs.owns(path):
                return None
            return self._orig_os["makedirs"](path, *a, **k)

        def sim_mkdir(path, *a, **k):
            if fs.owns(path):
                return None
            return self._orig_os["mkdir"](path, *a, **k)

        def sim_listdir(path="."):
            if fs.owns(path):
                fs._yp("listdir", path)
            if fs.owns(path):
                pre = _p(path).rstrip("/") + "/"
                return sorted({f[len(pre) :].split("/")[0] for f in fs.files if f.startswith(pre)})
            return self._orig_os["listdir"](path)

        def sim_stat(path, *a, **k):
            if fs.owns(path):
                fs._yp("stat", path)
            if fs.real_dir and fs.owns(path) and _p(path) != fs.root:
                return self._orig_os["stat"](fs._real(path))
            if fs.owns(path):
                if _p(path) in fs.files:
                    return os.stat_result((0o100644, 0, 0, 1, 0, 0, len(fs.files[_p(path)]), 0, 0, 0))
                if _p(path) == fs.root or any(f.startswith(_p(path).rstrip("/") + "/") for f in fs.files):
                    return os.stat_result((0o040755, 0, 0, 1, 0, 0, 0, 0, 0, 0))
                raise FileNotFoundError(errno.ENOENT, "No such file or directory", _p(path))
            return self._orig_os["stat"](path, *a, **k)

        def sim_getsize(path):
            if fs.owns(path):
                return sim_stat(path).st_size
            return self._orig_getsize(path)

        def sim_isdir(path):
            if fs.owns(path):
                return _p(path) == fs.root or any(f.startswith(_p(path).rstrip("/") + "/") for f in fs.files)
            return self._orig_isdir(path)

        self._orig_getcwd = os.getcwd
        os.getcwd = lambda: fs.sim_cwd if fs.sim_cwd else fs._orig_getcwd()
        os.replace = sim_replace
        os.rename = sim_replace
        os.remove = sim_remove
        os.unlink = sim_remove
        os.makedirs = sim_makedirs
        os.mkdir = sim_mkdir
        os.listdir = sim_listdir
        os.stat = sim_stat
        os.path.getsize = sim_getsize
        os.path.isdir = sim_isdir
        builtins.open = sim_open
        io.open = sim_open
        os.path.exists = sim_exists
        os.path.isfile = sim_isfile

    def uninstall(self):
        if self._orig_open is not None:
            builtins.open = self._orig_open
            io.open = self._orig_io_open
            os.path.exists = self._orig_exists
            os.path.isfile = self._orig_isfile
            for n, f in self._orig_os.items():
                setattr(os, n, f)
            os.getcwd = self._orig_getcwd
            os.path.getsize = self._orig_getsize
            os.path.isdir = self._orig_isdir
            self._orig_open = None

    def arm(self, path, **plan):
        """Fault plan consumed by the next open() of `path`."""
        self.armed[path] = plan

    def arm_next(self, kind, **plan):
        """Fault plan for the next file opened for writing (kind "w") or reading (kind "r")
        anywhere under the root: the code under test decides which path it really writes
        (it may go through a temporary file and rename it)."""
        self.armed_next[kind] = plan

    def disarm(self):
        self.armed.clear()
        self.armed_next.clear()

    def _real(self, path):
        return os.path.join(self.real_dir, self.key(path)[len(self.root) :].lstrip("/").replace("/", "__"))

    def open(self, path, mode="r", buffering=-1, encoding=None, errors=None, newline=None):
        self._yp("open", path)
        self.stats["opens"] += 1
        if self.real_dir:
            self.armed.pop(path, None)
            self.armed_next.clear()
            self.stats["passthrough_opens"] += 1
            return self._orig_open(self._real(path), mode, buffering, encoding, errors, newline)
        m = set(mode)
        binary = "b" in m
        plus = "+" in m
        creating = "x" in m
        writing = "w" in m
        appending = "a" in m
        reading = "r" in m or not (writing or appending or creating)
        if creating and path in self.files:
            raise FileExistsError(errno.EEXIST, "File exists", path)
        if reading and not (writing or appending or creating) and path not in self.files:
            raise FileNotFoundError(errno.ENOENT, "No such file or directory", path)
        plan = self.armed.pop(path, None)
        if plan is None:
            kind_ = "w" if (writing or appending or creating or plus) else "r"
            plan = self.armed_next.pop(kind_, None)
            if plan is None and self.plan_hook is not None:
                plan = self.plan_hook(path, kind_)
        if plan and plan.get("fail_open"):
            self.stats["open_errors_injected"] += 1
            raise OSError(plan.get("errno", errno.EACCES), "injected open error", path)
        if writing or creating:
            buf = self.files.get(path)
            if buf is None:
                buf = self.files[path] = bytearray()
            else:
                del buf[:]
                self.stats["truncating_opens"] += 1
        elif appending:
            buf = self.files.setdefault(path, bytearray())
        else:
            buf = self.files[path]
        can_r = (reading and not (writing or appending or creating)) or plus
        can_w = writing or appending or creating or plus
        raw = SimRaw(self, path, buf, can_r, can_w, appending, plan)
        if buffering == 0:
            if not binary:
                raise ValueError("can't have unbuffered text I/O")
            return raw
        bs = buffering if buffering > 1 else io.DEFAULT_BUFFER_SIZE
        if plan and plan.get("buffer_size"):
            bs = plan["buffer_size"]
        if can_r and can_w:
            b = io.BufferedRandom(raw, bs)
        elif can_w:
            b = io.BufferedWriter(raw, bs)
        else:
            b = io.BufferedReader(raw, bs)
        if binary:
            return b
        t = io.TextIOWrapper(b, encoding or "utf-8", errors, newline, line_buffering=(buffering == 1))
        t.mode = mode
        return t

    # -- helpers for the harness --------------------------------------------------
    def read_bytes(self, path):
        if self.real_dir:
            with self._orig_open(self._real(path), "rb") as f:
                return f.read()
        return bytes(self.files[path])

    def write_bytes(self, path, data):
        if self.real_dir:
            with self._orig_open(self._real(path), "wb") as f:
                f.write(data)
            return
        self.files[path] = bytearray(data)

    def snapshot(self):
        return {p: bytes(b) for p, b in self.files.items()}
